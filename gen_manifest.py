#!/usr/bin/env python3
"""Regenerate MANIFEST.json from harnesses.py (run after changing the registry)."""
import json, os, sys
HERE = os.path.dirname(os.path.abspath(__file__))
sys.path.insert(0, HERE)
import harnesses

NA = [
    ("C10", "Minimality of the chosen symbol is decided only by planner::optimize as a whole (all segmentations, pruning, tie-break); CBMC does not finish optimize even for one symbolic byte, and local cost lemmas do not imply global minimality."),
    ("C13", "The enabled-mode filter lives in optimize's start-up and GenericPlan::add_switches; add_switches alone exhausts 48 GB in CBMC's propositional reduction, optimize is out of reach; the only reachable fragment (maybe_switch_mode copies the planned mode) is not the property."),
    ("C17", "Bitmap::path builds its result with Vec::splice inside Hierholzer's loop; symbolic execution of 2x2 bitmaps did not finish in 22 min / 8.7 GB and real symbols start at 10x10; the pixel-iterator clause alone is not the property."),
    ("C19", "Counts Plan::step calls inside planner::optimize, which CBMC cannot execute; the pruning step remove_hopeless_cases on 3 plans did not finish either (sort_unstable_by_key over Vec<GenericPlan>)."),
]
checks = []
for pid in sorted(harnesses.PROPS):
    meta = harnesses.PROPS[pid]
    checks.append(dict(
        property_id=pid,
        quick_cmd="./check %s --tier quick" % pid,
        thorough_cmd="./check %s --tier thorough" % pid,
        evidence_file="/verif/evidence/%s.json" % pid,
        replay_cmd_template="./check %s --replay {path}" % pid,
        engine="kani-overlay",
        level_claimed=dict(category="model_checking", text=meta["text"] + " (bounded: every verdict holds for all values inside the bounds listed per harness in the evidence, nothing outside)", design_ref="DESIGN.md section 2, " + pid),
        level_note="Trusted: Kani/CBMC/CaDiCaL, rustc, the oracles in harness/ref, the listed stubs/contexts. Outside the claim: " + "; ".join(meta["outside"]),
        technique="solver-based bounded model checking of the real functions (Kani 0.68 / CBMC 6.11 / CaDiCaL) on an overlay copy of the working tree; counterexamples replayed natively with Kani concrete playback",
    ))
m = dict(
    version=1,
    setup_cmd="true",
    hooks=dict(
        guard="cfg(kani) - harness modules are appended to a scratch overlay copy of /repo only; /repo carries no hooks",
        enable="./check <id> copies /repo's working tree to ${VERIF_SCRATCH:-/var/tmp}/dmverif.*, appends `#[cfg(kani)] #[path=..] mod verif_*;` to the copies and runs cargo kani there",
        baseline_off_cmd="cd /repo && cargo test --workspace --no-fail-fast --offline",
        source_commits=[],
        add_only=True,
    ),
    engines=[dict(name="kani-overlay", path="/verif/check", serves_properties=sorted(harnesses.PROPS), kind_free_text="bounded model checker (Kani -> CBMC -> SAT) driven by /verif/check; harnesses in /verif/harness, oracles in /verif/harness/ref")],
    checks=checks,
    notes="exit 0 = held within bounds; exit 1 + VIOLATION line = counterexample reproduced natively; exit 2 = inconclusive (never success). Genuine defects found on the pinned tree were repaired by nine 'fix:' commits in /repo (see known_findings.json). Thorough-tier 'attempt' harnesses are reported as not decided when they hit their cap and never count as success.",
    not_applicable=[dict(property_id=p, reason=r) for p, r in NA],
)
json.dump(m, open(os.path.join(HERE, "MANIFEST.json"), "w"), indent=1)
print("MANIFEST.json written:", len(checks), "checks")
