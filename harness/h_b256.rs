//! Harnesses that are children of `crate::encodation::base256`: the private
//! `write_length` on its own (the 250/1555 boundaries of the Base256 length field
//! without running the per-byte encode loop over a 1555-byte input).
#![allow(dead_code, unused_imports, unused_variables)]
use super::*;
use crate::encodation::verif_enc::HEnc;
use crate::verif_ref::iso;

/// write_length on a field of exactly L data codewords already pushed (length
/// placeholder at n0 = 1, first and last data codeword symbolic, the rest 0), no
/// characters left, `extra` codewords of room in the symbol (0, 1 or 2, symbolic).
/// extra = 0: length 0 ("to the end of the symbol") stays; otherwise the standard's
/// one- or two-codeword length, never a panic / error, every codeword randomised
/// with the 255-state algorithm at its final position.
fn wl<const L: usize, const NCW: usize>() {
    let a: u8 = kani::any();
    let b: u8 = kani::any();
    let extra: usize = kani::any();
    kani::assume(extra <= 2);
    let n0: usize = 1;
    let used = n0 + 1 + L;
    let mut ctx = HEnc::<1, NCW>::new([0], 0, used, [used + extra, used + extra, used + extra], 0);
    ctx.cw[n0 + 1] = a;
    ctx.cw[n0 + L] = b;
    let r = write_length(&mut ctx, n0);
    assert!(r.is_ok() && !ctx.bad_index);
    let hdr = if extra == 0 {
        assert!(ctx.ncw == used);
        assert!(iso::unrand_255(ctx.cw[n0], n0 + 1) == 0);
        1
    } else if L < 250 {
        assert!(ctx.ncw == used);
        assert!(iso::unrand_255(ctx.cw[n0], n0 + 1) as usize == L);
        1
    } else {
        assert!(ctx.ncw == used + 1);
        assert!(iso::unrand_255(ctx.cw[n0], n0 + 1) as usize == 249 + L / 250);
        assert!(iso::unrand_255(ctx.cw[n0 + 1], n0 + 2) as usize == L % 250);
        2
    };
    assert!(iso::unrand_255(ctx.cw[n0 + hdr], n0 + hdr + 1) == a || L == 1);
    assert!(iso::unrand_255(ctx.cw[n0 + hdr + L - 1], n0 + hdr + L) == b);
    assert!(iso::unrand_255(ctx.cw[n0 + hdr + L / 2], n0 + hdr + L / 2 + 1) == if L / 2 == 0 { a } else if L / 2 == L - 1 { b } else { 0 } || L <= 2);
    kani::cover!(extra == 0);
    kani::cover!(extra == 2);
}

macro_rules! wlh {
    ($name:ident, $unwind:expr, $l:expr, $ncw:expr) => {
        #[kani::proof]
        #[kani::unwind($unwind)]
        fn $name() {
            wl::<$l, $ncw>();
        }
    };
}
wlh!(wl_b256_249, 262, 249, 256);
wlh!(wl_b256_250, 262, 250, 256);
wlh!(wl_b256_499, 512, 499, 506);
wlh!(wl_b256_500, 512, 500, 506);
wlh!(wl_b256_1554, 1570, 1554, 1562);
wlh!(wl_b256_1555, 1570, 1555, 1562);
