//! Harnesses that are children of `crate::data` (Latin-1 helpers).
#![allow(dead_code, unused_imports, unused_variables)]
use super::*;
use crate::verif_ref::charset as cs;
use alloc::{string::String, vec, vec::Vec};

/// utf8_to_latin1 on one arbitrary Unicode scalar value: Some([c]) exactly for
/// printable ISO-8859-1 (value = code point), None otherwise.
#[kani::proof]
#[kani::unwind(6)]
fn str_latin1_char() {
    let c: char = kani::any();
    let mut buf = [0u8; 4];
    let s: &str = c.encode_utf8(&mut buf);
    let r = utf8_to_latin1(s);
    let cp = c as u32;
    let printable = (cp >= 0x20 && cp <= 0x7E) || (cp >= 0xA0 && cp <= 0xFF);
    match r {
        Some(v) => {
            assert!(printable);
            assert!(v.len() == 1 && v[0] as u32 == cp);
            kani::cover!(cp == 0xFF);
        }
        None => assert!(!printable),
    }
}

/// latin1_to_utf8 on one arbitrary byte: the ISO-8859-1 code point for
/// printable bytes, None for controls; inverse of utf8_to_latin1.
#[kani::proof]
#[kani::unwind(6)]
fn str_latin1_byte() {
    let b: u8 = kani::any();
    let r = latin1_to_utf8(&[b]);
    match cs::latin1(b) {
        Some(cp) => match r {
            Some(s) => {
                let mut e = [0u8; 4];
                let n = cs::utf8_encode(cp, &mut e);
                let got = s.as_bytes();
                assert!(got.len() == n && got[0] == e[0] && (n < 2 || got[1] == e[1]));
                kani::cover!(n == 2);
            }
            None => assert!(false),
        },
        None => assert!(r.is_none()),
    }
}

/// Two characters: the helpers work per character and keep the order.
#[kani::proof]
#[kani::unwind(6)]
fn str_latin1_two() {
    let b: [u8; 2] = kani::any();
    kani::assume(cs::latin1(b[0]).is_some() && cs::latin1(b[1]).is_some());
    let s = latin1_to_utf8(&b);
    match s {
        Some(s) => match utf8_to_latin1(&s) {
            Some(v) => assert!(v.len() == 2 && v[0] == b[0] && v[1] == b[1]),
            None => assert!(false),
        },
        None => assert!(false),
    }
}
