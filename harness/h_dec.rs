//! Harnesses that are children of `crate::decodation` (they see its private
//! items: Reader, decode_ascii, decode_c40_like, decode_x12, decode_edifact,
//! decode_base256, read_eci, decode_c40_tuple).
#![allow(dead_code, unused_imports, unused_variables)]
use super::*;
use crate::verif_ref::iso::{self, Mode, Out, Stop};
use alloc::{vec, vec::Vec};

/// Mode numbers shared with the other harness modules.
pub(crate) const M_ASCII: u8 = 0;
pub(crate) const M_C40: u8 = 1;
pub(crate) const M_TEXT: u8 = 2;
pub(crate) const M_X12: u8 = 3;
pub(crate) const M_EDIFACT: u8 = 4;
pub(crate) const M_B256: u8 = 5;

pub(crate) fn mode_no(m: EncodationType) -> u8 {
    match m {
        EncodationType::Ascii => M_ASCII,
        EncodationType::C40 => M_C40,
        EncodationType::Text => M_TEXT,
        EncodationType::X12 => M_X12,
        EncodationType::Edifact => M_EDIFACT,
        EncodationType::Base256 => M_B256,
    }
}

/// Result of running one of the crate's mode decoders: (index after the run, next mode).
pub(crate) struct DecRun {
    pub ok: bool,
    pub next: usize,
    pub mode: u8,
    pub n_eci: usize,
}

/// Run the crate's decoder for `mode` on `cw[i..n]`; `base` is the absolute
/// index of cw[0] in the symbol (position dependent randomisation).
pub(crate) fn run_dec(mode: u8, cw: &[u8], n: usize, i: usize, base: usize, out: &mut Vec<u8>) -> DecRun {
    let rd = Reader(&cw[i..n], base + i);
    let mut ecis: Vec<(usize, u32)> = Vec::with_capacity(2);
    let r = if mode == M_ASCII {
        decode_ascii(rd, out, &mut ecis)
    } else if mode == M_C40 {
        decode_c40_like(rd, out, BASE_C40, SHIFT3_C40)
    } else if mode == M_TEXT {
        decode_c40_like(rd, out, BASE_TEXT, SHIFT3_TEXT)
    } else if mode == M_X12 {
        decode_x12(rd, out)
    } else if mode == M_EDIFACT {
        decode_edifact(rd, out)
    } else {
        decode_base256(rd, out)
    };
    match r {
        Ok((rest, m)) => {
            // the reader bookkeeping must be consistent
            assert!(rest.1 + rest.len() == base + n);
            DecRun { ok: true, next: rest.1 - base, mode: mode_no(m), n_eci: ecis.len() }
        }
        Err(_) => DecRun { ok: false, next: 0, mode: 0, n_eci: 0 },
    }
}

pub(crate) fn ref_dec(mode: u8, cw: &[u8], n: usize, i: usize, base: usize, out: &mut Out) -> (Stop, usize) {
    if mode == M_ASCII {
        iso::dec_ascii(cw, n, i, base, out)
    } else if mode == M_C40 {
        iso::dec_c40(cw, n, i, false, out)
    } else if mode == M_TEXT {
        iso::dec_c40(cw, n, i, true, out)
    } else if mode == M_X12 {
        iso::dec_x12(cw, n, i, out)
    } else if mode == M_EDIFACT {
        iso::dec_edifact(cw, n, i, out)
    } else {
        iso::dec_b256(cw, n, i, base, out)
    }
}

pub(crate) fn ref_mode_no(m: Mode) -> u8 {
    match m {
        Mode::Ascii => M_ASCII,
        Mode::C40 => M_C40,
        Mode::Text => M_TEXT,
        Mode::X12 => M_X12,
        Mode::Edifact => M_EDIFACT,
        Mode::Base256 => M_B256,
    }
}

macro_rules! same_out {
    ($out:expr, $ro:expr; $($i:expr),*) => {
        assert!($out.len() == $ro.n);
        $( if $i < $ro.n { assert!($out[$i] == $ro.b[$i]); } )*
    };
}
pub(crate) use same_out;

/// Decoder lemma for one mode run (C04 + C05): `K` arbitrary codewords at an
/// arbitrary absolute position.  (a) the crate's decoder returns Ok or Err,
/// never panics, and makes progress; (b) whenever the independent ISO/IEC 16022
/// decoder accepts the run, the crate accepts it too with the same bytes, the
/// same end index and the same next mode.
fn acc_generic<const K: usize>(mode: u8) {
    let cw: [u8; K] = kani::any();
    // the run length is concrete (one solver query per length): a symbolic slice
    // length makes CBMC unroll every decoder loop to the bound
    let len: usize = K;
    // position dependence (253/255-state randomisation) is the subject of
    // acc_b256_pos / acc_b256_len2 / acc_pad_pos, which use a symbolic position
    let base: usize = 0;
    let mut out: Vec<u8> = Vec::with_capacity(16);
    let r = run_dec(mode, &cw, len, 0, base, &mut out);
    let mut ro = Out::new();
    let (stop, rnext) = ref_dec(mode, &cw, len, 0, base, &mut ro);
    if r.ok {
        // progress: a decoder call consumes at least one codeword, except for the
        // end-of-symbol forms that hand the last codeword(s) over to ASCII
        assert!(r.next > 0 || len == 0 || (mode == M_EDIFACT && len <= 2) || ((mode == M_C40 || mode == M_TEXT || mode == M_X12) && len == 1));
        assert!(r.next <= len);
    }
    let mut accepted = match stop {
        Stop::End | Stop::Pad | Stop::Latch(_) => true,
        _ => false,
    };
    // A run that is followed by codeword 254 in ASCII context is not part of any
    // conformant stream (254 is not an ASCII-mode codeword): not a C04 obligation.
    if stop == Stop::Latch(Mode::Ascii) && rnext < len && cw[rnext] == iso::UNLATCH {
        accepted = false;
    }
    if accepted {
        assert!(r.ok);
        same_out!(out, ro; 0, 1, 2, 3, 4, 5, 6, 7, 8, 9, 10, 11);
        assert!(r.next == rnext);
        let want = match stop {
            Stop::Latch(m) => ref_mode_no(m),
            _ => M_ASCII,
        };
        assert!(r.mode == want);
        kani::cover!(K < 3 || ro.n >= 1);
        kani::cover!(stop == Stop::End || mode == M_B256 || K == 0);
    }
}

macro_rules! acc {
    ($name:ident, $unwind:expr, $mode:expr, $($k:expr),+) => {
        #[kani::proof]
        #[kani::unwind($unwind)]
        fn $name() {
            $( acc_generic::<$k>($mode); )+
        }
    };
}
// unwind = exact need: ASCII K+2 (eat loop + pad loop), C40/Text/X12 4 (three values per pair + 1), EDIFACT K/3+2, Base256 K+1
acc!(acc_ascii_1, 3, M_ASCII, 0, 1);
acc!(acc_ascii_2, 4, M_ASCII, 2);
acc!(acc_ascii_3, 5, M_ASCII, 3);
acc!(acc_c40_2, 4, M_C40, 1, 2);
acc!(acc_c40_3, 4, M_C40, 3);
acc!(acc_c40_4, 4, M_C40, 4);
acc!(acc_text_2, 4, M_TEXT, 1, 2);
acc!(acc_text_3, 4, M_TEXT, 3);
acc!(acc_text_4, 4, M_TEXT, 4);
acc!(acc_x12_3, 4, M_X12, 1, 2, 3);
acc!(acc_x12_5, 4, M_X12, 4, 5);
acc!(acc_edifact_3, 3, M_EDIFACT, 1, 2, 3);
acc!(acc_edifact_5, 4, M_EDIFACT, 4, 5);
acc!(acc_edifact_7, 4, M_EDIFACT, 6, 7);
acc!(acc_b256_3, 5, M_B256, 1, 2, 3);
acc!(acc_b256_5, 7, M_B256, 4, 5);

/// C40/Text decoder state between two codeword pairs is (pending shift set,
/// pending upper shift).  For each of the 8 states a concrete first pair that
/// produces it, followed by `K` arbitrary codewords: together with acc_c40
/// (from the initial state) this is one inductive step over pairs.
fn acc_c40_state<const K: usize>(text: bool, shift: u8, upper: bool) {
    // values of the prefix pair: [3 (space), a, b] chosen so that the state after it is (shift, upper)
    let (v0, v1, v2): (u8, u8, u8) = match (shift, upper) {
        (0, false) => (3, 3, 3),
        (0, true) => (3, 1, 30),
        (s, false) => (3, 3, s - 1),
        (s, true) => (1, 30, s - 1),
    };
    let p = 1600 * v0 as u32 + 40 * v1 as u32 + v2 as u32 + 1;
    let tail: [u8; K] = kani::any();
    let len: usize = K;
    let mut cw = [0u8; 8];
    cw[0] = (p >> 8) as u8;
    cw[1] = (p & 255) as u8;
    if K > 0 { cw[2] = tail[0]; }
    if K > 1 { cw[3] = tail[1]; }
    if K > 2 { cw[4] = tail[2]; }
    if K > 3 { cw[5] = tail[3]; }
    let n = 2 + len;
    let mode = if text { M_TEXT } else { M_C40 };
    let mut out: Vec<u8> = Vec::with_capacity(16);
    let r = run_dec(mode, &cw, n, 0, 0, &mut out);
    let mut ro = Out::new();
    let (stop, rnext) = ref_dec(mode, &cw, n, 0, 0, &mut ro);
    let mut accepted = match stop {
        Stop::End | Stop::Pad | Stop::Latch(_) => true,
        _ => false,
    };
    if stop == Stop::Latch(Mode::Ascii) && rnext < n && cw[rnext] == iso::UNLATCH {
        accepted = false;
    }
    if accepted {
        assert!(r.ok);
        same_out!(out, ro; 0, 1, 2, 3, 4, 5, 6, 7, 8, 9);
        assert!(r.next == rnext);
        assert!(r.mode == M_ASCII);
        kani::cover!(ro.n >= 3);
    }
}

#[kani::proof]
#[kani::unwind(4)]
fn acc_c40_st() {
    acc_c40_state::<2>(false, 0, true);
    acc_c40_state::<2>(false, 1, false);
    acc_c40_state::<2>(false, 1, true);
    acc_c40_state::<2>(false, 2, false);
    acc_c40_state::<2>(false, 2, true);
    acc_c40_state::<2>(false, 3, false);
    acc_c40_state::<2>(false, 3, true);
}

#[kani::proof]
#[kani::unwind(4)]
fn acc_text_st() {
    acc_c40_state::<2>(true, 0, true);
    acc_c40_state::<2>(true, 1, false);
    acc_c40_state::<2>(true, 1, true);
    acc_c40_state::<2>(true, 2, false);
    acc_c40_state::<2>(true, 2, true);
    acc_c40_state::<2>(true, 3, false);
    acc_c40_state::<2>(true, 3, true);
}


/// Position dependence of the Base256 255-state randomisation: a field of
/// <= 2 data bytes at an arbitrary absolute position 0..=1557 of the symbol.
#[kani::proof]
#[kani::unwind(6)]
fn acc_b256_pos() {
    let pos: usize = kani::any();
    kani::assume(pos <= 1555);
    let d: [u8; 2] = kani::any();
    let len: usize = kani::any();
    kani::assume(len >= 1 && len <= 2);
    let explicit: bool = kani::any();
    // reference encoder: length codeword (len, or 0 = "to the end of the symbol"), data, all 255-state randomised
    let mut f = [0u8; 3];
    f[0] = iso::rand_255(if explicit { len as u8 } else { 0 }, pos + 1);
    f[1] = iso::rand_255(d[0], pos + 2);
    f[2] = iso::rand_255(d[1], pos + 3);
    let mut out: Vec<u8> = Vec::with_capacity(8);
    let r = decode_base256(Reader(&f[..len + 1], pos), &mut out);
    match r {
        Ok((rest, m)) => {
            assert!(m == EncodationType::Ascii);
            assert!(rest.len() == 0 && rest.1 == pos + len + 1);
            assert!(out.len() == len);
            assert!(out[0] == d[0]);
            assert!(len == 1 || out[1] == d[1]);
        }
        Err(_) => assert!(false),
    }
}

/// Two-codeword Base256 length (250..=1555) at an arbitrary position: the
/// decoder must ask for exactly that many bytes (observed through the
/// UnexpectedEnd / Ok distinction on a short tail).
#[kani::proof]
#[kani::unwind(6)]
fn acc_b256_len2() {
    let pos: usize = kani::any();
    kani::assume(pos <= 1300);
    let l: usize = kani::any();
    kani::assume(l >= 250 && l <= 1555);
    let mut f = [0u8; 4];
    f[0] = iso::rand_255((l / 250 + 249) as u8, pos + 1);
    f[1] = iso::rand_255((l % 250) as u8, pos + 2);
    let mut out: Vec<u8> = Vec::with_capacity(8);
    // only two data bytes follow: a correct decoder wants l >= 250 of them and reports the end
    let r = decode_base256(Reader(&f[..4], pos), &mut out);
    assert!(r == Err(DataDecodingError::UnexpectedEnd));
    assert!(out.len() == 2);
}

/// One-codeword Base256 length 1..=249 (symbolic, in particular the boundary
/// value 249) at a symbolic position, followed by only two data codewords: the
/// decoder must ask for exactly that many bytes (Ok for 1 and 2, UnexpectedEnd
/// after two bytes otherwise).
#[kani::proof]
#[kani::unwind(6)]
fn acc_b256_len1() {
    let pos: usize = kani::any();
    kani::assume(pos <= 1300);
    let l: usize = kani::any();
    kani::assume(l >= 1 && l <= 249);
    let d: [u8; 2] = kani::any();
    let mut f = [0u8; 3];
    f[0] = iso::rand_255(l as u8, pos + 1);
    f[1] = d[0];
    f[2] = d[1];
    let mut out: Vec<u8> = Vec::with_capacity(8);
    let r = decode_base256(Reader(&f[..3], pos), &mut out);
    if l <= 2 {
        match r {
            Ok((rest, m)) => {
                assert!(m == EncodationType::Ascii && out.len() == l && rest.len() == 2 - l);
                assert!(out[0] == iso::unrand_255(d[0], pos + 2));
            }
            Err(_) => assert!(false),
        }
    } else {
        assert!(r == Err(DataDecodingError::UnexpectedEnd));
        assert!(out.len() == 2);
    }
    kani::cover!(l == 249);
}

/// PAD handling of the ASCII decoder at an arbitrary position: PAD followed by
/// correct 253-state pads is accepted silently; one wrong pad is rejected.
#[kani::proof]
#[kani::unwind(6)]
fn acc_pad_pos() {
    let pos: usize = kani::any();
    kani::assume(pos <= 1554);
    let npad: usize = kani::any();
    kani::assume(npad <= 3);
    let mut f = [0u8; 4];
    f[0] = iso::PAD;
    f[1] = iso::pad_253(pos + 2);
    f[2] = iso::pad_253(pos + 3);
    f[3] = iso::pad_253(pos + 4);
    let bad: usize = kani::any();
    kani::assume(bad <= 3);
    let delta: u8 = kani::any();
    if bad >= 1 && bad <= npad {
        kani::assume(delta != 0);
        f[bad] = f[bad].wrapping_add(delta);
    }
    let mut out: Vec<u8> = Vec::with_capacity(8);
    let mut ecis: Vec<(usize, u32)> = Vec::with_capacity(2);
    let r = decode_ascii(Reader(&f[..npad + 1], pos), &mut out, &mut ecis);
    if bad >= 1 && bad <= npad {
        // (a corrupted pad need not be rejected: at some positions two byte values
        // de-randomise to 129; only no-panic is required here)
    } else {
        match r {
            Ok((rest, m)) => {
                assert!(m == EncodationType::Ascii && rest.len() == 0 && out.is_empty());
            }
            Err(_) => assert!(false),
        }
        kani::cover!(npad == 3);
    }
}

#[kani::proof]
fn np_tuple() {
    let a: u8 = kani::any();
    let b: u8 = kani::any();
    if let Ok((c1, c2, c3)) = decode_c40_tuple(a, b) {
        let full = ((a as u32) << 8) + b as u32;
        assert!(1600 * c1 as u32 + 40 * c2 as u32 + c3 as u32 + 1 == full);
        assert!(c2 < 40 && c3 < 40);
        kani::cover!(c1 == 40);
    } else {
        assert!(a == 0 && b == 0);
    }
}

/// ECI designator reader on arbitrary codewords (C05, C15 rejection part):
/// Ok(c) exactly for the one-, two- and three-codeword forms of ISO/IEC 16022.
#[kani::proof]
#[kani::unwind(5)]
fn eci_read_any() {
    let cw: [u8; 3] = kani::any();
    let len: usize = kani::any();
    kani::assume(len <= 3);
    let r = read_eci(Reader(&cw[..len], 7));
    let c1 = cw[0] as u32;
    let c2 = cw[1] as u32;
    let c3 = cw[2] as u32;
    let expect: Option<(u32, usize)> = if len >= 1 && c1 >= 1 && c1 <= 127 {
        Some((c1 - 1, 1))
    } else if len >= 2 && c1 >= 128 && c1 <= 191 && c2 >= 1 && c2 <= 254 {
        Some(((c1 - 128) * 254 + (c2 - 1) + 127, 2))
    } else if len >= 3 && c1 >= 192 && c1 <= 207 && c2 >= 1 && c2 <= 254 && c3 >= 1 && c3 <= 254 {
        Some(((c1 - 192) * 64516 + (c2 - 1) * 254 + (c3 - 1) + 16383, 3))
    } else {
        None
    };
    match (r, expect) {
        (Ok((rest, c)), Some((e, used))) => {
            assert!(c == e);
            assert!(rest.len() == len - used && rest.1 == 7 + used);
            kani::cover!(used == 3);
        }
        (Err(_), None) => {}
        _ => assert!(false),
    }
}

/// Wrapper for the encoder-side harness eci_rt (write_eci -> read_eci).
pub(crate) fn read_eci_at(cw: &[u8], n: usize) -> Option<(u32, usize)> {
    match read_eci(Reader(&cw[..n], 1)) {
        Ok((rest, c)) => Some((c, n - rest.len())),
        Err(_) => None,
    }
}

/// ASCII decoder with an ECI codeword: the designator is consumed and recorded
/// with the output offset, nothing is emitted for it.
#[kani::proof]
#[kani::unwind(6)]
fn acc_ascii_eci() {
    let d: [u8; 3] = kani::any();
    let a: u8 = kani::any();
    kani::assume(a >= 1 && a <= 128);
    let f = [a, 241, d[0], d[1], d[2]];
    let mut out: Vec<u8> = Vec::with_capacity(8);
    let mut ecis: Vec<(usize, u32)> = Vec::with_capacity(2);
    let r = decode_ascii(Reader(&f[..], 0), &mut out, &mut ecis);
    // only one-codeword designators here (the other forms are eci_read_any)
    kani::assume(d[0] >= 1 && d[0] <= 127 && d[1] >= 1 && d[1] <= 128 && d[2] >= 1 && d[2] <= 128);
    match r {
        Ok((rest, m)) => {
            assert!(ecis.len() == 1 && ecis[0] == (1, d[0] as u32 - 1));
            assert!(out.len() == 3 && out[0] == a - 1 && out[1] == d[1] - 1 && out[2] == d[2] - 1);
            assert!(rest.len() == 0 && m == EncodationType::Ascii);
        }
        Err(_) => assert!(false),
    }
}

// ---------------------------------------------------------------------------
// Validation of the oracle itself: the reference encoder pieces and the
// reference decoder are mutually inverse (both written from the standard).

#[kani::proof]
#[kani::unwind(12)]
fn oracle_c40_rt() {
    let text: bool = kani::any();
    let ch: [u8; 2] = kani::any();
    let mut vals = [0u8; 9];
    let mut nv = 0;
    let mut i = 0;
    while i < 2 {
        let mut v = [0u8; 4];
        let k = iso::c40_values(ch[i], text, &mut v);
        let mut j = 0;
        while j < 4 {
            if j < k {
                vals[nv] = v[j];
                nv += 1;
            }
            j += 1;
        }
        i += 1;
    }
    // pad with shift-1 values to a multiple of three (standard's end rule b/c)
    kani::assume(nv == 3 || nv == 6);
    let mut cw = [0u8; 8];
    let mut n = 0;
    iso::pack3(&mut cw, &mut n, vals[0], vals[1], vals[2]);
    if nv == 6 {
        iso::pack3(&mut cw, &mut n, vals[3], vals[4], vals[5]);
    }
    iso::put(&mut cw, &mut n, iso::UNLATCH);
    let mut o = Out::new();
    let (stop, next) = iso::dec_c40(&cw, n, 0, text, &mut o);
    assert!(stop == Stop::Latch(Mode::Ascii) && next == n);
    assert!(o.n == 2 && o.b[0] == ch[0] && o.b[1] == ch[1]);
}

#[kani::proof]
#[kani::unwind(8)]
fn oracle_edifact_rt() {
    let ch: [u8; 4] = kani::any();
    let k: usize = kani::any();
    kani::assume(k >= 1 && k <= 4);
    let mut v = [31u8; 4];
    let mut i = 0;
    while i < 4 {
        if i < k {
            kani::assume(iso::edifact_ok(ch[i]));
            v[i] = ch[i] & 63;
        }
        i += 1;
    }
    let mut cw = [0u8; 8];
    let mut n = 0;
    if k == 4 {
        iso::edifact_pack(&mut cw, &mut n, &v, 4);
        let u = [31u8, 0, 0, 0];
        iso::edifact_pack(&mut cw, &mut n, &u, 1);
    } else {
        iso::edifact_pack(&mut cw, &mut n, &v, k + 1);
    }
    // some ASCII after the unlatch so that the end-of-symbol rule does not apply
    iso::put(&mut cw, &mut n, 66);
    iso::put(&mut cw, &mut n, 67);
    iso::put(&mut cw, &mut n, 68);
    let mut o = Out::new();
    let (stop, _next) = iso::dec_edifact(&cw, n, 0, &mut o);
    assert!(stop == Stop::Latch(Mode::Ascii));
    assert!(o.n == k);
    i = 0;
    while i < 4 {
        if i < k {
            assert!(o.b[i] == ch[i]);
        }
        i += 1;
    }
}

// ---------------------------------------------------------------------------
// decode_parts prelude / trailer (C16, C04) on ASCII bodies.  The five
// non-ASCII mode decoders are replaced by stubs that fail (their behaviour is
// the subject of acc_*); what is checked here is the macro re-expansion, the
// FNC1 strip and the main loop around decode_ascii.

fn stub_b256<'a>(_d: Reader<'a>, _o: &mut Vec<u8>) -> Result<(Reader<'a>, EncodationType), DataDecodingError> {
    Err(DataDecodingError::UnexpectedEnd)
}
fn stub_c40<'a>(_d: Reader<'a>, _o: &mut Vec<u8>, _a: &[u8; 37], _b: &[u8; 32]) -> Result<(Reader<'a>, EncodationType), DataDecodingError> {
    Err(DataDecodingError::UnexpectedEnd)
}

/// ASCII decoder model for the prelude harness: consumes everything that is left
/// as plain ASCII characters (codewords 1..=128), as the real decoder does for
/// such codewords (acc_ascii_*); keeps the main loop of decode_parts cheap.
fn stub_ascii2<'a>(mut d: Reader<'a>, out: &mut Vec<u8>, _e: &mut Vec<(usize, u32)>) -> Result<(Reader<'a>, EncodationType), DataDecodingError> {
    let mut i = 0;
    while i < 4 {
        if let Ok(ch) = d.eat() {
            if ch >= 1 && ch <= 128 {
                out.push(ch - 1);
            } else {
                return Err(DataDecodingError::UnexpectedEnd);
            }
        }
        i += 1;
    }
    Ok((d, EncodationType::Ascii))
}

fn parts_case<const B: usize>(first: u8) {
    // stream: [first codeword (236 / 237 / 232 / none), B ASCII codewords 1..=128]
    let body: [u8; B] = kani::any();
    let mut cw = [0u8; 4];
    let mut n = 0;
    if first != 0 {
        cw[0] = first;
        n = 1;
    }
    let mut i = 0;
    while i < B {
        kani::assume(body[i] >= 1 && body[i] <= 128);
        cw[n] = body[i];
        n += 1;
        i += 1;
    }
    let r = decode_parts(&cw[..n], true);
    let head: &[u8] = if first == 236 { MACRO05_HEAD } else if first == 237 { MACRO06_HEAD } else { &[] };
    let is_macro = first == 236 || first == 237;
    match r {
        Ok(p) => {
            let want_len = head.len() + B + if is_macro { 2 } else { 0 };
            assert!(p.output.len() == want_len);
            assert!(p.eci_spans.is_empty());
            assert!(p.fnc1 == (first == 232));
            if is_macro {
                assert!(p.output[0] == head[0] && p.output[1] == head[1] && p.output[2] == head[2] && p.output[3] == head[3]);
                assert!(p.output[4] == head[4] && p.output[5] == head[5] && p.output[6] == head[6]);
            }
            i = 0;
            while i < B {
                assert!(p.output[head.len() + i] == body[i] - 1);
                i += 1;
            }
            if is_macro {
                assert!(p.output[want_len - 2] == 0x1E && p.output[want_len - 1] == 0x04);
            }
        }
        Err(_) => assert!(false),
    }
}

#[kani::proof]
#[kani::unwind(5)]
#[kani::stub(decode_base256, stub_b256)]
#[kani::stub(decode_x12, stub_b256)]
#[kani::stub(decode_edifact, stub_b256)]
#[kani::stub(decode_c40_like, stub_c40)]
#[kani::stub(decode_ascii, stub_ascii2)]
fn parts_macro05() {
    parts_case::<2>(236);
}

#[kani::proof]
#[kani::unwind(5)]
#[kani::stub(decode_base256, stub_b256)]
#[kani::stub(decode_x12, stub_b256)]
#[kani::stub(decode_edifact, stub_b256)]
#[kani::stub(decode_c40_like, stub_c40)]
#[kani::stub(decode_ascii, stub_ascii2)]
fn parts_macro06_fnc1() {
    parts_case::<2>(237);
    parts_case::<1>(232);
    parts_case::<0>(236);
}
