//! Harnesses that are children of `crate::errorcode` (generator table, ecc_block, encode_error).
#![allow(dead_code, unused_imports, unused_variables)]
use super::*;
use crate::verif_ref::gf as rgf;
use crate::symbol_size::verif_sym::VARIANTS;
use crate::verif_ref::tables::TABLE;
use alloc::{vec, vec::Vec};

/// The 25 generator degrees of ISO/IEC 16022 + ISO 21471.
const DEGREES: [usize; 25] = [5, 7, 10, 11, 12, 14, 15, 18, 20, 22, 24, 27, 28, 32, 34, 36, 38, 41, 42, 46, 48, 50, 56, 62, 68];

/// generator(k) == prod_{i=1..k} (x + 2^i) in reference arithmetic, for the 25 degrees (closed terms).
fn gen_is_product(k: usize) {
    let g = generator(k);
    assert!(g.len() == k + 1);
    let mut r = [0u8; 70];
    rgf::generator(k, &mut r);
    let mut j = 0;
    while j <= k {
        assert!(g[j] == r[j]);
        j += 1;
    }
}

macro_rules! gens {
    ($name:ident, $($k:expr),+) => {
        #[kani::proof]
        #[kani::unwind(72)]
        fn $name() {
            $( gen_is_product($k); )+
        }
    };
}
gens!(rs_gen_a, 5, 7, 10, 11, 12, 14, 15, 18);
gens!(rs_gen_b, 20, 22, 24, 27, 28);
gens!(rs_gen_c, 32, 34, 36, 38);
gens!(rs_gen_d, 41, 42, 46);
gens!(rs_gen_e, 48, 50, 56);
gens!(rs_gen_f, 62, 68);

/// Every symbol size uses one of the 25 degrees: generator(num_ecc_per_block) exists.
#[kani::proof]
#[kani::unwind(27)]
fn rs_gen_exists() {
    let i: usize = kani::any();
    kani::assume(i < 48);
    let k = VARIANTS[i].block_setup().num_ecc_per_block;
    let g = generator(k);
    assert!(g.len() == k + 1 && g[0] == 1);
    assert!(TABLE[i].ecc == k * TABLE[i].blocks);
}

/// One step of the LFSR division from an ARBITRARY register state:
/// new = (old * x + a * x^k) mod g, coefficient-wise in reference arithmetic.
fn step<const K: usize>() {
    // g is tied to prod (x + 2^i) by rs_gen_*; here it is just the table entry
    let g = generator(K);
    assert!(g.len() == K + 1 && g[0] == 1);
    let old: [u8; K] = kani::any();
    let a: u8 = kani::any();
    let mut ecc = [0u8; 70];
    let mut j = 0;
    while j < K {
        ecc[j] = old[j];
        j += 1;
    }
    ecc_block(core::iter::once(a), g, &mut ecc[..K + 1]);
    let lead = old[0] ^ a;
    j = 0;
    while j < K {
        let shifted = if j + 1 < K { old[j + 1] } else { 0 };
        assert!(ecc[j] == shifted ^ rgf::mul(lead, g[j + 1]));
        j += 1;
    }
    assert!(ecc[K] == 0);
}

macro_rules! steps {
    ($name:ident, $unwind:expr, $($k:expr),+) => {
        #[kani::proof]
        #[kani::unwind($unwind)]
        fn $name() {
            $( step::<$k>(); )+
        }
    };
}
steps!(rs_step_5_11, 72, 5, 7, 10, 11);
steps!(rs_step_12_18, 72, 12, 14, 15, 18);
steps!(rs_step_20, 72, 20);
steps!(rs_step_22, 72, 22);
steps!(rs_step_24, 72, 24);
steps!(rs_step_27, 72, 27);
steps!(rs_step_28, 72, 28);
steps!(rs_step_32, 72, 32);
steps!(rs_step_34, 72, 34);
steps!(rs_step_36, 72, 36);
steps!(rs_step_38, 72, 38);
steps!(rs_step_41, 72, 41);
steps!(rs_step_42, 72, 42);
steps!(rs_step_46, 72, 46);
steps!(rs_step_48, 72, 48);
steps!(rs_step_50, 72, 50);
steps!(rs_step_56, 72, 56);
steps!(rs_step_62, 72, 62);
steps!(rs_step_68, 72, 68);

/// Interleaving of encode_error: all data zero except the LAST codeword of each
/// block (symbolic).  Block b consists of data codewords b, b+B, b+2B, ...; its
/// error codewords are a_b * x^k mod g and have to appear at positions b, b+B, ...
/// of the result.  Pins the stride, the unequal blocks of 144x144 and the write-back.
fn interleave(size: SymbolSize, idx: usize) {
    let t = TABLE[idx];
    let b = t.blocks;
    let k = t.ecc / b;
    let n = t.data;
    let mut data = vec![0u8; n];
    let last: [u8; 10] = kani::any();
    // the last codeword of block q is the largest index i < n with i % b == q
    let mut q = 0;
    while q < 10 {
        if q < b {
            let i = n - 1 - ((n - 1 - q) % b);
            data[i] = last[q];
        }
        q += 1;
    }
    let ecc = encode_error(&data, size);
    assert!(ecc.len() == t.ecc);
    let mut r = [0u8; 70];
    rgf::generator(k, &mut r);
    q = 0;
    while q < 10 {
        if q < b {
            let mut j = 0;
            while j < 70 {
                if j < k {
                    assert!(ecc[q + b * j] == rgf::mul(last[q], r[j + 1]));
                }
                j += 1;
            }
        }
        q += 1;
    }
}

macro_rules! il {
    ($name:ident, $size:ident, $idx:expr) => {
        #[kani::proof]
        #[kani::unwind(160)]
        fn $name() {
            assert!(VARIANTS[$idx] == SymbolSize::$size);
            interleave(SymbolSize::$size, $idx);
        }
    };
}
il!(rs_il_sq10, Square10, 0);
il!(rs_il_sq52, Square52, 14);
il!(rs_il_sq64, Square64, 15);
il!(rs_il_sq72, Square72, 16);
il!(rs_il_sq104, Square104, 20);
il!(rs_il_sq132, Square132, 22);
il!(rs_il_sq144, Square144, 23);
il!(rs_il_r8x32, Rect8x32, 25);

/// Same for the two-codeword tail of every block of 144x144 and 52x52 (two LFSR steps).
#[kani::proof]
#[kani::unwind(160)]
fn rs_il2_sq144() {
    let size = SymbolSize::Square144;
    let n = 1558;
    let b = 10;
    let k = 62;
    let mut data = vec![0u8; n];
    let tail: [u8; 20] = kani::any();
    let mut i = 0;
    while i < 20 {
        data[n - 20 + i] = tail[i];
        i += 1;
    }
    let ecc = encode_error(&data, size);
    let mut r = [0u8; 70];
    rgf::generator(k, &mut r);
    // block q: codewords with index % 10 == q; the last two of them are in the tail
    let mut q = 0;
    while q < 10 {
        // positions of the tail that belong to block q
        let p1 = (q + 10 - (n - 20) % 10) % 10; // first occurrence in tail
        let a1 = tail[p1];
        let a2 = tail[p1 + 10];
        // two steps from the zero register: s1 = a1 * g', s2 = shift(s1) + (s1[0] + a2) * g'
        let mut j = 0;
        while j < 62 {
            let s1j1 = if j + 1 < k { rgf::mul(a1, r[j + 2]) } else { 0 };
            let lead = rgf::mul(a1, r[1]) ^ a2;
            assert!(ecc[q + b * j] == s1j1 ^ rgf::mul(lead, r[j + 1]));
            j += 1;
        }
        q += 1;
    }
}


// ---------------------------------------------------------------------------
// encode_error as glue around ecc_block: with ecc_block replaced by a recording
// stub (count, first, last, xor of the data it is handed) the strided block
// extraction, the unequal blocks of 144x144 and the interleaved write-back are
// checked for a FULLY SYMBOLIC data vector of every multi-block size.
// (ecc_block itself: rs_step_*, generators: rs_gen_*.)

fn stub_ecc_block<T: Iterator<Item = u8>>(data: T, g: &[u8], ecc: &mut [u8]) {
    let mut count: usize = 0;
    let mut first: u8 = 0;
    let mut last: u8 = 0;
    let mut x: u8 = 0;
    for a in data {
        if count == 0 {
            first = a;
        }
        last = a;
        x ^= a.rotate_left((count % 8) as u32);
        count += 1;
    }
    // g must be the generator for this block length and ecc the scratch register of k+1 cells
    assert!(ecc.len() == g.len());
    ecc[0] = (count & 0xFF) as u8;
    ecc[1] = (count >> 8) as u8;
    ecc[2] = first;
    ecc[3] = last;
    ecc[4] = x;
}

fn glue<const N: usize>(size: SymbolSize, idx: usize) {
    let t = TABLE[idx];
    assert!(t.data == N);
    let b = t.blocks;
    let k = t.ecc / b;
    // data: a fixed pattern, with the first and the last codeword of every block symbolic
    // (sizes up to 280 data codewords are also run with EVERY codeword symbolic: glue_full)
    let mut data = [0u8; N];
    let mut i = 0;
    while i < N {
        data[i] = ((i * 31 + 7) % 251) as u8;
        i += 1;
    }
    let head: [u8; 10] = kani::any();
    let tail: [u8; 10] = kani::any();
    i = 0;
    while i < 10 {
        if i < b {
            data[i] = head[i];
            data[N - b + i] = tail[i];
        }
        i += 1;
    }
    check_glue::<N>(&data, size, t.ecc, b);
}

fn glue_full<const N: usize>(size: SymbolSize, idx: usize) {
    let t = TABLE[idx];
    assert!(t.data == N);
    let data: [u8; N] = kani::any();
    check_glue::<N>(&data, size, t.ecc, t.blocks);
}

fn check_glue<const N: usize>(data: &[u8; N], size: SymbolSize, necc: usize, b: usize) {
    let ecc = encode_error(data, size);
    assert!(ecc.len() == necc);
    let mut q = 0;
    while q < b {
        // block q = data codewords q, q+b, q+2b, ...
        let cnt = (N - q + b - 1) / b;
        let mut x: u8 = 0;
        let mut j = 0;
        while j < cnt {
            x ^= data[q + b * j].rotate_left((j % 8) as u32);
            j += 1;
        }
        assert!(ecc[q] == (cnt & 0xFF) as u8 && ecc[q + b] == (cnt >> 8) as u8);
        assert!(ecc[q + 2 * b] == data[q]);
        assert!(ecc[q + 3 * b] == data[q + b * (cnt - 1)]);
        assert!(ecc[q + 4 * b] == x);
        q += 1;
    }
}

macro_rules! glueh {
    ($name:ident, $unwind:expr, $size:ident, $idx:expr, $n:expr) => {
        #[kani::proof]
        #[kani::unwind($unwind)]
        #[kani::stub(ecc_block, stub_ecc_block)]
        fn $name() {
            assert!(VARIANTS[$idx] == SymbolSize::$size);
            glue::<$n>(SymbolSize::$size, $idx);
        }
    };
}
macro_rules! gluefull {
    ($name:ident, $unwind:expr, $size:ident, $idx:expr, $n:expr) => {
        #[kani::proof]
        #[kani::unwind($unwind)]
        #[kani::stub(ecc_block, stub_ecc_block)]
        fn $name() {
            assert!(VARIANTS[$idx] == SymbolSize::$size);
            glue_full::<$n>(SymbolSize::$size, $idx);
        }
    };
}
gluefull!(rs_gluefull_sq52, 206, Square52, 14, 204);
gluefull!(rs_gluefull_sq10, 14, Square10, 0, 3);
gluefull!(rs_gluefull_r16x48, 64, Rect16x48, 29, 49);
glueh!(rs_glue_sq52, 206, Square52, 14, 204);
glueh!(rs_glue_sq64, 282, Square64, 15, 280);
glueh!(rs_glue_sq72, 370, Square72, 16, 368);
glueh!(rs_glue_sq80, 458, Square80, 17, 456);
glueh!(rs_glue_sq88, 578, Square88, 18, 576);
glueh!(rs_glue_sq96, 698, Square96, 19, 696);
glueh!(rs_glue_sq104, 818, Square104, 20, 816);
glueh!(rs_glue_sq120, 1052, Square120, 21, 1050);
glueh!(rs_glue_sq132, 1306, Square132, 22, 1304);
glueh!(rs_glue_sq144, 1560, Square144, 23, 1558);
glueh!(rs_glue_sq10, 14, Square10, 0, 3);
glueh!(rs_glue_r16x48, 64, Rect16x48, 29, 49);


// Scaled-down UNEQUAL blocks.  Only 144x144 has blocks of different lengths
// (8 x 156 + 2 x 155 data codewords) and its loops are too long for a quick query.
// encode_error takes every size-dependent number from SymbolSize::block_setup and
// SymbolSize::num_data_codewords; with those two replaced by toy constants
// (n data codewords over B blocks, n % B != 0, 5 error codewords per block) the
// very same code of encode_error runs the unequal-block case on a few bytes,
// EVERY data codeword symbolic.
use crate::symbol_size::BlockSetup;
macro_rules! gluetoy {
    ($name:ident, $bs:ident, $ndc:ident, $n:expr, $b:expr) => {
        pub(crate) fn $bs(_s: SymbolSize) -> BlockSetup {
            BlockSetup { num_ecc_blocks: $b, num_ecc_per_block: 5, width: 10, height: 10, extra_vertical_alignments: 0, extra_horizontal_alignments: 0 }
        }
        pub(crate) fn $ndc(_s: &SymbolSize) -> usize {
            $n
        }
        #[kani::proof]
        #[kani::unwind(14)]
        #[kani::stub(ecc_block, stub_ecc_block)]
        #[kani::stub(crate::symbol_size::SymbolSize::block_setup, $bs)]
        #[kani::stub(crate::symbol_size::SymbolSize::num_data_codewords, $ndc)]
        fn $name() {
            let data: [u8; $n] = kani::any();
            check_glue::<$n>(&data, SymbolSize::Square10, 5 * $b, $b);
        }
    };
}
gluetoy!(rs_gluetoy_8_3, bs_toy_8_3, ndc_toy_8_3, 8, 3);
gluetoy!(rs_gluetoy_7_3, bs_toy_7_3, ndc_toy_7_3, 7, 3);
gluetoy!(rs_gluetoy_10_4, bs_toy_10_4, ndc_toy_10_4, 10, 4);
gluetoy!(rs_gluetoy_9_3, bs_toy_9_3, ndc_toy_9_3, 9, 3);
gluetoy!(rs_gluetoy_11_10, bs_toy_11_10, ndc_toy_11_10, 11, 10);


// Light variant for the largest sizes: the stub does not walk the block, it
// records the iterator's exact size hint (StepBy over a range / slice iterator
// reports its length exactly) and the first element.

fn stub_ecc_block_light<T: Iterator<Item = u8>>(mut data: T, g: &[u8], ecc: &mut [u8]) {
    let (lo, hi) = data.size_hint();
    assert!(ecc.len() == g.len());
    ecc[0] = (lo & 0xFF) as u8;
    ecc[1] = (lo >> 8) as u8;
    ecc[2] = match data.next() {
        Some(a) => a,
        None => 0,
    };
    ecc[3] = if hi == Some(lo) { 1 } else { 0 };
}

fn glue_light<const N: usize>(size: SymbolSize, idx: usize) {
    let t = TABLE[idx];
    assert!(t.data == N);
    let b = t.blocks;
    let mut data = [0u8; N];
    let head: [u8; 10] = kani::any();
    let mut i = 0;
    while i < 10 {
        if i < b {
            data[i] = head[i];
        }
        i += 1;
    }
    let ecc = encode_error(&data, size);
    assert!(ecc.len() == t.ecc);
    let mut q = 0;
    while q < 10 {
        if q < b {
            // number of data codewords of block q: indices q, q+B, ... below N
            let cnt = (N - q + b - 1) / b;
            assert!(ecc[q] == (cnt & 0xFF) as u8 && ecc[q + b] == (cnt >> 8) as u8);
            assert!(ecc[q + 2 * b] == head[q]);
            assert!(ecc[q + 3 * b] == 1);
        }
        q += 1;
    }
}

macro_rules! gluelight {
    ($name:ident, $unwind:expr, $size:ident, $idx:expr, $n:expr) => {
        #[kani::proof]
        #[kani::unwind($unwind)]
        #[kani::stub(ecc_block, stub_ecc_block_light)]
        fn $name() {
            assert!(VARIANTS[$idx] == SymbolSize::$size);
            glue_light::<$n>(SymbolSize::$size, $idx);
        }
    };
}
gluelight!(rs_gluelight_sq144, 632, Square144, 23, 1558);
gluelight!(rs_gluelight_sq132, 508, Square132, 22, 1304);
gluelight!(rs_gluelight_sq120, 420, Square120, 21, 1050);
gluelight!(rs_gluelight_sq104, 348, Square104, 20, 816);
gluelight!(rs_gluelight_sq64, 124, Square64, 15, 280);
