//! Harnesses that are children of `crate::errorcode::decoding` (syndromes, Chien search).
#![allow(dead_code, unused_imports, unused_variables)]
use super::*;
use crate::verif_ref::gf as rgf;
use alloc::{vec, vec::Vec};

/// primitive_element_evaluation == Horner evaluation at 2^1..2^k in reference arithmetic.
#[kani::proof]
#[kani::unwind(6)]
fn synd_eval() {
    let c: [u8; 4] = kani::any();
    let mut out = [GF(0); 3];
    let any_nz = primitive_element_evaluation(c.iter().copied(), &mut out);
    let e1 = rgf::eval(&c, 4, 2);
    let e2 = rgf::eval(&c, 4, 4);
    let e3 = rgf::eval(&c, 4, 8);
    assert!(out[0].0 == e1 && out[1].0 == e2 && out[2].0 == e3);
    assert!(any_nz == (e1 != 0 || e2 != 0 || e3 != 0));
}

/// chien_search on linear polynomials (the shortcut): exactly the root set, no division by zero.
#[kani::proof]
#[kani::unwind(4)]
fn chien_lin() {
    let c: [u8; 2] = kani::any();
    let roots = chien_search(&c);
    let x: u8 = kani::any();
    let is_root = rgf::eval(&c, 2, x) == 0;
    let mut found = false;
    if roots.len() > 0 && roots[0].0 == x { found = true; }
    if roots.len() > 1 && roots[1].0 == x { found = true; }
    assert!(roots.len() <= 2);
    if c[0] != 0 || c[1] != 0 {
        // (the zero polynomial has every element as a root; not asked of the search)
        assert!(found == is_root);
    }
    kani::cover!(c[0] == 0 && c[1] != 0);
}

/// chien_search for degree 0 / empty input: no panic.
#[kani::proof]
#[kani::unwind(257)]
fn chien_small() {
    let c: [u8; 1] = kani::any();
    let _ = chien_search(&c[..0]);
    let r = chien_search(&c);
    assert!(r.len() <= 255);
}

/// chien_search on quadratics (full 255-step search): exactly the root set.
#[kani::proof]
#[kani::unwind(257)]
fn chien_quad() {
    let c: [u8; 3] = kani::any();
    kani::assume(c[0] != 0);
    let roots = chien_search(&c);
    assert!(roots.len() <= 2);
    let x: u8 = kani::any();
    let is_root = rgf::eval(&c, 3, x) == 0;
    let mut found = false;
    if roots.len() > 0 && roots[0].0 == x { found = true; }
    if roots.len() > 1 && roots[1].0 == x { found = true; }
    assert!(found == is_root);
}
