//! Harnesses that are children of `crate::decodation::eci` (convert, convert_chunk and the tables).
#![allow(dead_code, unused_imports, unused_variables)]
use super::*;
use crate::verif_ref::charset as cs;
use alloc::{string::String, vec, vec::Vec};

fn one_byte_table(eci: u32, oracle: fn(u8) -> Option<u32>) {
    let b: u8 = kani::any();
    let mut out = String::with_capacity(8);
    let r = convert_chunk(&[b], eci, &mut out);
    match oracle(b) {
        Some(cp) => {
            assert!(r.is_ok());
            let mut e = [0u8; 4];
            let n = cs::utf8_encode(cp, &mut e);
            let got = out.as_bytes();
            assert!(got.len() == n);
            assert!(got[0] == e[0]);
            assert!(n < 2 || got[1] == e[1]);
            assert!(n < 3 || got[2] == e[2]);
            kani::cover!(n >= 2);
            kani::cover!(b >= 0xE0);
        }
        None => {
            assert!(r == Err(DataDecodingError::CharsetError));
        }
    }
}

/// ECI 3 (and the default 0): ISO-8859-1, every byte value.
#[kani::proof]
#[kani::unwind(6)]
fn eci_tab_3() {
    let eci: u32 = if kani::any() { 0 } else { 3 };
    one_byte_table(eci, cs::latin1);
}

/// ECI 11: ISO-8859-9, every byte value.
#[kani::proof]
#[kani::unwind(6)]
fn eci_tab_11() {
    one_byte_table(11, cs::iso8859_9);
}

/// ECI 13: ISO-8859-11, every byte value.
#[kani::proof]
#[kani::unwind(6)]
fn eci_tab_13() {
    one_byte_table(13, cs::iso8859_11);
}

/// ECI 26 (UTF-8) and 27 (US-ASCII): LEN arbitrary bytes; accepted exactly
/// when well formed UTF-8 resp. all 7-bit, and passed through unchanged.
fn utf8_ascii<const LEN: usize>(ascii: bool) {
    let b: [u8; LEN] = kani::any();
    let mut out = String::with_capacity(8);
    let r = convert_chunk(&b, if ascii { 27 } else { 26 }, &mut out);
    let mut seven_bit = true;
    let mut k = 0;
    while k < LEN {
        if b[k] >= 0x80 {
            seven_bit = false;
        }
        k += 1;
    }
    let want = if ascii { seven_bit } else { cs::utf8_valid(&b, LEN) };
    if want {
        assert!(r.is_ok());
        let got = out.as_bytes();
        assert!(got.len() == LEN);
        k = 0;
        while k < LEN {
            assert!(got[k] == b[k]);
            k += 1;
        }
    } else {
        assert!(r == Err(DataDecodingError::CharsetError));
    }
    kani::cover!(want || LEN == 0);
    kani::cover!(!want || LEN == 0);
}

#[kani::proof]
#[kani::unwind(6)]
fn eci_ascii_2() {
    utf8_ascii::<0>(true);
    utf8_ascii::<1>(true);
    utf8_ascii::<2>(true);
}

#[kani::proof]
#[kani::unwind(6)]
fn eci_utf8_2() {
    utf8_ascii::<0>(false);
    utf8_ascii::<1>(false);
    utf8_ascii::<2>(false);
}

#[kani::proof]
#[kani::unwind(6)]
fn eci_utf8_3() {
    utf8_ascii::<3>(false);
}

#[kani::proof]
#[kani::unwind(6)]
fn eci_utf8_4() {
    utf8_ascii::<4>(false);
}

/// Any ECI number, up to two arbitrary bytes: a value or an error, never a panic.
#[kani::proof]
#[kani::unwind(6)]
fn np_eci_chunk() {
    let b: [u8; 2] = kani::any();
    let eci: u32 = kani::any();
    let mut out = String::with_capacity(8);
    let _ = convert_chunk(&b[..0], eci, &mut out);
    let _ = convert_chunk(&b[..1], eci, &mut out);
    let _ = convert_chunk(&b[..2], eci, &mut out);
}

/// convert() with the span lists decode_parts can produce (positions
/// non-decreasing and within the output): no panic, and with a single span
/// the result is the conversion of prefix (Latin-1) + suffix (that ECI).
#[kani::proof]
#[kani::unwind(6)]
fn eci_convert_spans() {
    let raw: [u8; 3] = kani::any();
    let len: usize = kani::any();
    kani::assume(len <= 3);
    let p: usize = kani::any();
    kani::assume(p <= len);
    let eci: u32 = kani::any();
    kani::assume(eci == 3 || eci == 26 || eci == 27 || eci == 11);
    let spans = [(p, eci)];
    let r = convert(&raw[..len], &spans);
    let mut a = String::with_capacity(8);
    let ra = convert_chunk(&raw[..p], 0, &mut a);
    let rb = convert_chunk(&raw[p..len], eci, &mut a);
    match r {
        Ok(s) => {
            assert!(ra.is_ok() && rb.is_ok());
            let x = s.as_bytes();
            let y = a.as_bytes();
            assert!(x.len() == y.len());
            assert!(x.len() < 1 || x[0] == y[0]);
            assert!(x.len() < 2 || x[1] == y[1]);
            assert!(x.len() < 3 || x[2] == y[2]);
            assert!(x.len() < 4 || x[3] == y[3]);
            assert!(x.len() < 5 || x[4] == y[4]);
            assert!(x.len() < 6 || x[5] == y[5]);
            kani::cover!(x.len() == 3);
        }
        Err(_) => assert!(ra.is_err() || rb.is_err()),
    }
}
