//! Harnesses that are children of `crate::encodation`: the per-mode encoders
//! instantiated with an array backed implementation of the private trait
//! `EncodingContext` (HEnc), and the real `GenericDataEncoder` prelude pieces
//! (with_size, use_macro_if_possible, write_eci, eat/backup/rest, add_padding).
#![allow(dead_code, unused_imports, unused_variables)]
use super::*;
use crate::decodation::verif_dec as vd;
use crate::verif_ref::iso::{self, Mode, Out, Stop};
use alloc::{vec, vec::Vec};

pub(crate) const NI: usize = 8;
pub(crate) const NC: usize = 40;

/// Data capacities (data codewords) of the real symbol sizes, ascending,
/// duplicates removed (ISO/IEC 16022 table 7 + ISO 21471); checked against
/// `SymbolSize::num_data_codewords` by the C12 harness `cat_caps_table`.
pub(crate) const CAPS: [usize; 14] = [3, 5, 8, 10, 12, 16, 18, 22, 24, 30, 32, 36, 38, 43];

/// Nondeterministic stand-in for `GenericDataEncoder` as the mode encoders see it.
pub(crate) struct HEnc<const NI: usize = 8, const NC: usize = 40> {
    pub inp: [u8; NI],
    pub n: usize,
    pub cur: usize,
    pub cw: [u8; NC],
    pub ncw: usize,
    /// capacities of the symbols in the list, ascending
    pub caps: [usize; 3],
    /// `maybe_switch_mode` answers true exactly when this many characters are left (0 = never)
    pub switch_at: usize,
    pub switched: bool,
    /// the encoder went past the planned switch point (the real context panics there)
    pub overshoot: bool,
    /// maybe_switch_mode called again after it returned true
    pub called_after_switch: bool,
    pub ascii_end: bool,
    pub bad_index: bool,
}

impl<const NI: usize, const NC: usize> HEnc<NI, NC> {
    pub fn new(inp: [u8; NI], n: usize, n0: usize, caps: [usize; 3], switch_at: usize) -> Self {
        HEnc {
            inp,
            n,
            cur: 0,
            cw: [0; NC],
            ncw: n0,
            caps,
            switch_at,
            switched: false,
            overshoot: false,
            called_after_switch: false,
            ascii_end: false,
            bad_index: false,
        }
    }

    /// capacity of the first symbol with room for `need` codewords
    pub fn cap_for(&self, need: usize) -> Option<usize> {
        if self.caps[0] >= need {
            Some(self.caps[0])
        } else if self.caps[1] >= need {
            Some(self.caps[1])
        } else if self.caps[2] >= need {
            Some(self.caps[2])
        } else {
            None
        }
    }
}

impl<const NI: usize, const NC: usize> EncodingContext for HEnc<NI, NC> {
    fn maybe_switch_mode(&mut self) -> Result<bool, DataEncodingError> {
        let left = self.n - self.cur;
        if self.switched {
            self.called_after_switch = true;
            return Ok(false);
        }
        if self.ascii_end {
            return Ok(false);
        }
        if left < self.switch_at {
            self.overshoot = true;
        }
        if left > 0 && left == self.switch_at {
            self.switched = true;
            Ok(true)
        } else {
            Ok(false)
        }
    }

    fn symbol_size_left(&mut self, extra_codewords: usize) -> Option<usize> {
        let used = self.ncw + extra_codewords;
        let cap = self.cap_for(used)?;
        Some(cap - used)
    }

    fn eat(&mut self) -> Option<u8> {
        if self.cur < self.n {
            let c = self.inp[self.cur];
            self.cur += 1;
            Some(c)
        } else {
            None
        }
    }

    fn backup(&mut self, steps: usize) {
        if steps > self.cur {
            self.bad_index = true;
        } else {
            self.cur -= steps;
        }
    }

    fn rest(&self) -> &[u8] {
        &self.inp[self.cur..self.n]
    }

    fn push(&mut self, ch: u8) {
        if self.ncw < NC {
            self.cw[self.ncw] = ch;
            self.ncw += 1;
        } else {
            self.bad_index = true;
        }
    }

    fn replace(&mut self, index: usize, ch: u8) {
        if index < self.ncw {
            self.cw[index] = ch;
        } else {
            self.bad_index = true;
        }
    }

    fn insert(&mut self, index: usize, ch: u8) {
        if index > self.ncw || self.ncw >= NC {
            self.bad_index = true;
            return;
        }
        let mut i = self.ncw;
        while i > index {
            self.cw[i] = self.cw[i - 1];
            i -= 1;
        }
        self.cw[index] = ch;
        self.ncw += 1;
    }

    fn codewords(&self) -> &[u8] {
        &self.cw[..self.ncw]
    }

    fn set_ascii_until_end(&mut self) {
        self.ascii_end = true;
    }
}

fn real_encode<const NI: usize, const NC: usize>(mode: u8, ctx: &mut HEnc<NI, NC>) -> Result<(), DataEncodingError> {
    if mode == vd::M_ASCII {
        ascii::encode(ctx)
    } else if mode == vd::M_C40 {
        c40::encode(ctx)
    } else if mode == vd::M_TEXT {
        text::encode(ctx)
    } else if mode == vd::M_X12 {
        x12::encode(ctx)
    } else if mode == vd::M_EDIFACT {
        edifact::encode(ctx)
    } else {
        base256::encode(ctx)
    }
}

fn pick_caps() -> [usize; 3] {
    // a list of one, two or three symbols; capacities from the real catalogue
    let i0: usize = kani::any();
    let i1: usize = kani::any();
    let i2: usize = kani::any();
    kani::assume(i0 < 14 && i1 < 14 && i2 < 14 && i0 <= i1 && i1 <= i2);
    [CAPS[i0], CAPS[i1], CAPS[i2]]
}

/// Encoder lemma (C02 / C11 / C01.a): run the real encoder of `mode` on up to
/// `L` arbitrary characters from an arbitrary context state, finish the stream
/// the way GenericDataEncoder::codewords does (rest in ASCII, UNLATCH + PAD +
/// 253-state pads up to the capacity), and decode it with the independent
/// ISO/IEC 16022 decoder.
fn conf_generic<const L: usize>(mode: u8, n0max: usize) {
    let chars: [u8; L] = kani::any();
    let mut inp = [0u8; NI];
    let mut i = 0;
    while i < L {
        inp[i] = chars[i];
        i += 1;
    }
    let n = L;
    let n0: usize = kani::any();
    kani::assume(n0 >= 1 && n0 <= n0max);
    let caps = pick_caps();
    let switch_at: usize = kani::any();
    kani::assume(switch_at < n);
    // preconditions the planner guarantees for the characters handed to a mode
    if mode == vd::M_X12 {
        i = 0;
        while i < L {
            kani::assume(x12::is_native_x12(chars[i]) || i >= (L / 3) * 3);
            i += 1;
        }
        kani::assume((n - switch_at) % 3 == 0);
    }
    if mode == vd::M_EDIFACT {
        i = 0;
        while i < L {
            kani::assume(edifact::is_encodable(chars[i]));
            i += 1;
        }
    }
    let mut ctx = HEnc::<8, 40>::new(inp, n, n0, caps, switch_at);
    let r = real_encode(mode, &mut ctx);
    assert!(!ctx.bad_index);
    if mode != vd::M_ASCII && mode != vd::M_X12 {
        // these encoders look at the switch point after every character
        assert!(!ctx.overshoot);
    }
    kani::assume(!ctx.overshoot);
    assert!(!ctx.called_after_switch);
    if r.is_err() {
        // only "does not fit": the largest symbol is too small
        assert!(ctx.cap_for(ctx.ncw).is_none() || ctx.cap_for(ctx.ncw + 1).is_none() || ctx.cap_for(ctx.ncw + 2).is_none() || ctx.cap_for(ctx.ncw + 3).is_none());
        return;
    }
    // progress / termination of the dispatch loop
    assert!(ctx.cur > 0 || ctx.ncw > n0 || ctx.ascii_end || ctx.switched);
    let consumed_by_mode = ctx.cur;
    let was_switched = ctx.switched;
    let end_of_mode = ctx.ncw;
    let in_ascii = ctx.ascii_end || ctx.switched || mode == vd::M_ASCII;
    if !in_ascii {
        // the mode encoder returns without leaving its mode only at the end of the data
        assert!(ctx.cur == ctx.n);
    }
    // rest of the data in ASCII (what the dispatch loop does next)
    if ctx.cur < ctx.n {
        assert!(in_ascii);
        ctx.switch_at = 0;
        ctx.switched = false;
        let r2 = ascii::encode(&mut ctx);
        assert!(r2.is_ok() && ctx.cur == ctx.n);
    }
    let cap = match ctx.cap_for(ctx.ncw) {
        Some(c) => c,
        None => return, // does not fit: TooMuchOrIllegalData
    };
    // padding as specified: UNLATCH if still in the mode, PAD, 253-state pads
    let mut k = ctx.ncw;
    if k < cap && !in_ascii {
        ctx.cw[k] = iso::UNLATCH;
        k += 1;
    }
    if k < cap {
        ctx.cw[k] = iso::PAD;
        k += 1;
    }
    // At most 3 of the 253-state pads are materialised and the symbol is cut
    // there: a correct stream is in ASCII mode (or at the symbol end) before the
    // PAD, so the cut cannot change its reading, while a stream that is still in
    // a non-ASCII mode reads the pads as data and is caught.  The pad run itself
    // is pad_conf / acc_pad_pos.
    let mut j = 0;
    while j < 3 {
        if k < cap {
            ctx.cw[k] = iso::pad_253(k + 1);
            k += 1;
        }
        j += 1;
    }
    let cap = k;
    // independent decoder: mode run from n0, then ASCII to the end
    let mut ro = Out::new();
    let (stop, next) = if mode == vd::M_ASCII {
        (Stop::Latch(Mode::Ascii), n0)
    } else {
        vd::ref_dec(mode, &ctx.cw, cap, n0, 0, &mut ro)
    };
    let ok1 = match stop {
        Stop::End | Stop::Latch(Mode::Ascii) => true,
        _ => false,
    };
    assert!(ok1);
    let (stop2, next2) = iso::dec_ascii(&ctx.cw, cap, next, 0, &mut ro);
    assert!(stop2 == Stop::End || stop2 == Stop::Pad);
    assert!(next2 == cap);
    assert!(ro.n == n);
    let mut q = 0;
    while q < L {
        assert!(ro.b[q] == chars[q]);
        q += 1;
    }
    // reachability witnesses: a planned switch was taken; the implicit
    // end-of-symbol form was produced (modes that have one); padding was added
    kani::cover!(was_switched || L < 2 || (mode == vd::M_X12 && L < 6));
    kani::cover!(stop == Stop::End || mode == vd::M_ASCII || mode == vd::M_B256);
    kani::cover!(stop2 == Stop::Pad);
}

macro_rules! conf {
    ($name:ident, $unwind:expr, $mode:expr, $l:expr, $n0:expr) => {
        #[kani::proof]
        #[kani::unwind($unwind)]
        fn $name() {
            conf_generic::<$l>($mode, $n0);
        }
    };
}
conf!(conf_ascii_2, 6, vd::M_ASCII, 2, 8);
conf!(conf_ascii_3, 7, vd::M_ASCII, 3, 8);
conf!(conf_c40_1, 6, vd::M_C40, 1, 8);
conf!(conf_c40_2, 6, vd::M_C40, 2, 8);
conf!(conf_c40_3, 7, vd::M_C40, 3, 8);
conf!(conf_text_2, 6, vd::M_TEXT, 2, 8);
conf!(conf_text_3, 7, vd::M_TEXT, 3, 8);
conf!(conf_x12_3, 7, vd::M_X12, 3, 8);
conf!(conf_x12_5, 8, vd::M_X12, 5, 8);
conf!(conf_edifact_2, 6, vd::M_EDIFACT, 2, 8);
conf!(conf_edifact_4, 7, vd::M_EDIFACT, 4, 8);
conf!(conf_edifact_5, 8, vd::M_EDIFACT, 5, 8);
conf!(conf_b256_2, 6, vd::M_B256, 2, 8);
conf!(conf_b256_3, 7, vd::M_B256, 3, 8);

/// Base256 runs of exactly L bytes around the 249/250 length-field boundary and
/// at 1555 (the longest field): content one symbolic byte repeated, run to the
/// end of the data, symbol with room to spare (so the length is written
/// explicitly); the independent decoder must read the same L bytes back.
fn b256_long<const L: usize, const NCW: usize>() {
    let fill: u8 = kani::any();
    let inp = [fill; L];
    let n0: usize = 1;
    let mut ctx = HEnc::<L, NCW>::new(inp, L, n0, [NCW - 1, NCW - 1, NCW - 1], 0);
    let r = base256::encode(&mut ctx);
    assert!(r.is_ok() && !ctx.bad_index);
    assert!(ctx.cur == L && ctx.ascii_end);
    let hdr = if L < 250 { 1 } else { 2 };
    assert!(ctx.ncw == n0 + hdr + L);
    // independent reading of the field
    let d1 = iso::unrand_255(ctx.cw[n0], n0 + 1) as usize;
    let len = if d1 < 250 { d1 } else { 250 * (d1 - 249) + iso::unrand_255(ctx.cw[n0 + 1], n0 + 2) as usize };
    assert!(d1 != 0 && len == L);
    assert!((d1 < 250) == (L < 250));
    assert!(iso::unrand_255(ctx.cw[n0 + hdr], n0 + hdr + 1) == fill);
    assert!(iso::unrand_255(ctx.cw[n0 + hdr + L - 1], n0 + hdr + L) == fill);
    assert!(iso::unrand_255(ctx.cw[n0 + hdr + L / 2], n0 + hdr + L / 2 + 1) == fill);
}

macro_rules! b256long {
    ($name:ident, $unwind:expr, $l:expr, $ncw:expr) => {
        #[kani::proof]
        #[kani::unwind($unwind)]
        fn $name() {
            b256_long::<$l, $ncw>();
        }
    };
}
b256long!(conf_b256_249, 262, 249, 260);
b256long!(conf_b256_250, 262, 250, 260);
b256long!(conf_b256_251, 262, 251, 260);
b256long!(conf_b256_1555, 1570, 1555, 1565);

// ---------------------------------------------------------------------------
// ECI designators (C15, C02, C11)

/// write_eci(c) for every c <= 999999: one/two/three-codeword form as in
/// ISO/IEC 16022 and read back by the crate's read_eci as the same number.
#[kani::proof]
#[kani::unwind(6)]
fn eci_rt() {
    let c: u32 = kani::any();
    kani::assume(c <= 999_999);
    let list = SymbolList::with_whitelist([]);
    let mut enc = GenericDataEncoder::with_size(&[], &list, EncodationType::Ascii.into(), false);
    enc.codewords.reserve(8);
    enc.write_eci(c);
    let cw = &enc.codewords;
    assert!(cw[0] == 241);
    // forms of the standard, in oracle arithmetic
    if c <= 126 {
        assert!(cw.len() == 2 && cw[1] as u32 == c + 1);
    } else if c <= 16382 {
        assert!(cw.len() == 3);
        assert!(cw[1] as u32 == (c - 127) / 254 + 128 && cw[2] as u32 == (c - 127) % 254 + 1);
    } else {
        assert!(cw.len() == 4);
        assert!(cw[1] as u32 == (c - 16383) / 64516 + 192);
        assert!(cw[2] as u32 == ((c - 16383) / 254) % 254 + 1);
        assert!(cw[3] as u32 == (c - 16383) % 254 + 1);
        kani::cover!(c == 999_999);
    }
    let mut d = [0u8; 3];
    let nd = cw.len() - 1;
    d[0] = cw[1];
    if nd > 1 {
        d[1] = cw[2];
    }
    if nd > 2 {
        d[2] = cw[3];
    }
    match vd::read_eci_at(&d, nd) {
        Some((c2, used)) => assert!(c2 == c && used == nd),
        None => assert!(false),
    }
}

// ---------------------------------------------------------------------------
// Macro / FNC1 prelude and the read cursor (C16, C01.b, C11)

const M05: [u8; 7] = [b'[', b')', b'>', 0x1E, b'0', b'5', 0x1D];
const M06: [u8; 7] = [b'[', b')', b'>', 0x1E, b'0', b'6', 0x1D];

/// with_size + use_macro_if_possible on an arbitrary input of length `N`:
/// macro codeword iff (no FNC1, header, trailer); body exactly stripped;
/// otherwise untouched; then eat/backup/rest stay inside the (stripped) input.
fn mac_generic<const N: usize>() {
    let inp: [u8; N] = kani::any();
    let fnc1: bool = kani::any();
    let list = SymbolList::with_whitelist([]);
    let mut enc = GenericDataEncoder::with_size(&inp, &list, EncodationType::Ascii.into(), fnc1);
    enc.codewords.reserve(4);
    enc.use_macro_if_possible();
    let h05 = N >= 7 && inp[0] == M05[0] && inp[1] == M05[1] && inp[2] == M05[2] && inp[3] == M05[3] && inp[4] == M05[4] && inp[5] == M05[5] && inp[6] == M05[6];
    let h06 = N >= 7 && inp[0] == M06[0] && inp[1] == M06[1] && inp[2] == M06[2] && inp[3] == M06[3] && inp[4] == M06[4] && inp[5] == M06[5] && inp[6] == M06[6];
    let trail = N >= 2 && inp[N - 2] == 0x1E && inp[N - 1] == 0x04;
    let want_macro = !fnc1 && (h05 || h06) && trail && N >= 9;
    if want_macro {
        assert!(enc.codewords.len() == 1);
        assert!(enc.codewords[0] == if h05 { 236 } else { 237 });
        assert!(enc.data.len() == N - 9);
        assert!(enc.input.len() == N - 9);
        if N > 9 {
            assert!(enc.data[0] == inp[7] && enc.data[N - 10] == inp[N - 3]);
        }
    } else {
        assert!(enc.codewords.len() == if fnc1 { 1 } else { 0 });
        assert!(!fnc1 || enc.codewords[0] == 232);
        assert!(enc.data.len() == N);
        assert!(N == 0 || (enc.data[0] == inp[0] && enc.data[N - 1] == inp[N - 1]));
    }
    // cursor: eat k, back up j <= k, the rest is the body from k-j on
    let body0 = if want_macro { 7 } else { 0 };
    let blen = if want_macro { N - 9 } else { N };
    let k: usize = kani::any();
    let j: usize = kani::any();
    kani::assume(k <= blen && j <= k && k <= 3);
    let mut e = 0;
    while e < 3 {
        if e < k {
            let c = enc.eat();
            assert!(c == Some(inp[body0 + e]));
        }
        e += 1;
    }
    enc.backup(j);
    let rest = enc.rest();
    assert!(rest.len() == blen - (k - j));
    if rest.len() > 0 {
        assert!(rest[0] == inp[body0 + k - j]);
        assert!(rest[rest.len() - 1] == inp[body0 + blen - 1]);
    }
    kani::cover!(N < 12 || (want_macro && k == 3 && j == 2));
    kani::cover!(N < 9 || want_macro);
    kani::cover!(N < 7 || (!want_macro && (h05 || h06) && !fnc1));
}

macro_rules! mac {
    ($name:ident, $($n:expr),+) => {
        #[kani::proof]
        #[kani::unwind(12)]
        fn $name() {
            $( mac_generic::<$n>(); )+
        }
    };
}
mac!(mac_iff_12, 12);
mac!(mac_iff_9_10, 9, 10);
mac!(mac_iff_7_8, 7, 8);

#[kani::proof]
#[kani::unwind(12)]
fn mac_iff_short() {
    // lengths below the header length: never a macro, never a panic
    mac_small::<0>();
    mac_small::<1>();
    mac_small::<2>();
    mac_small::<5>();
}

fn mac_small<const N: usize>() {
    let inp: [u8; N] = kani::any();
    let fnc1: bool = kani::any();
    let list = SymbolList::with_whitelist([]);
    let mut enc = GenericDataEncoder::with_size(&inp, &list, EncodationType::Ascii.into(), fnc1);
    enc.codewords.reserve(4);
    enc.use_macro_if_possible();
    assert!(enc.codewords.len() == if fnc1 { 1 } else { 0 });
    assert!(enc.data.len() == N && enc.input.len() == N);
}

// ---------------------------------------------------------------------------
// Padding (C02, C01.c)

/// add_padding on a real GenericDataEncoder for every symbol size up to 64 data codewords with 0..=3
/// free codewords, in ASCII or in a non-ASCII mode: UNLATCH if needed, 129,
/// then 253-state pads (oracle arithmetic) exactly up to the capacity.
#[kani::proof]
#[kani::unwind(6)]
fn pad_conf() {
    let i: usize = kani::any();
    kani::assume(i < 48);
    let size = crate::symbol_size::verif_sym::VARIANTS[i];
    let cap = size.num_data_codewords();
    // (the 27 sizes with at most 64 data codewords; pad positions beyond that: acc_pad_pos)
    kani::assume(cap <= 64);
    let free: usize = kani::any();
    kani::assume(free <= 3 && free <= cap);
    let n0 = cap - free;
    let non_ascii: bool = kani::any();
    let list = SymbolList::with_whitelist([]);
    let mut enc = GenericDataEncoder::with_size(&[], &list, EncodationType::Ascii.into(), false);
    let mut v = vec![66u8; 66];
    v.truncate(n0);
    enc.codewords = v;
    if non_ascii {
        enc.encodation = EncodationType::X12;
    }
    enc.add_padding(size);
    let cw = &enc.codewords;
    assert!(cw.len() == cap);
    let mut k = n0;
    if k < cap && non_ascii {
        assert!(cw[k] == 254);
        k += 1;
    }
    if k < cap {
        assert!(cw[k] == 129);
        k += 1;
    }
    if k < cap {
        assert!(cw[k] == iso::pad_253(k + 1));
        k += 1;
    }
    if k < cap {
        assert!(cw[k] == iso::pad_253(k + 1));
    }
    kani::cover!(free == 3 && non_ascii);
    kani::cover!(free == 3 && !non_ascii && cap == 64);
}

// ---------------------------------------------------------------------------
// Entry point for the planner coupling harnesses (C18) in planner::verif_plan.

/// Run the real encoder of `mode` on inp[..n] to the end of the data (no planned
/// switch), `n0` codewords (incl. the latch) already present, then the rest in
/// ASCII as the dispatch loop would.  Returns the number of codewords written
/// for the run, or None if it does not fit / the encoder reports an error.
pub(crate) fn run_to_end(mode: u8, inp: [u8; NI], n: usize, n0: usize, caps: [usize; 3]) -> Option<usize> {
    let mut ctx = HEnc::<8, 40>::new(inp, n, n0, caps, 0);
    if real_encode(mode, &mut ctx).is_err() {
        return None;
    }
    assert!(!ctx.bad_index);
    if ctx.cur < ctx.n {
        assert!(ctx.ascii_end || mode == vd::M_ASCII);
        if ascii::encode(&mut ctx).is_err() {
            return None;
        }
    }
    assert!(ctx.cur == ctx.n);
    ctx.cap_for(ctx.ncw)?;
    Some(ctx.ncw - n0)
}

// ---------------------------------------------------------------------------
// Failure classification at the entry of GenericDataEncoder::codewords (C11):
// with an EMPTY symbol list the answer is SymbolListEmpty for every input,
// whatever its length (the early returns come before the planner is called).

fn empty_list_case<const N: usize>() {
    let data: [u8; N] = kani::any();
    let fnc1: bool = kani::any();
    let list = SymbolList::with_whitelist([]);
    let mut enc = GenericDataEncoder::with_size(&data, &list, EncodationType::all(), fnc1);
    let r = GenericDataEncoder::codewords(&mut enc);
    assert!(r == Err(DataEncodingError::SymbolListEmpty));
}

#[kani::proof]
#[kani::unwind(10)]
fn tot_empty_list() {
    empty_list_case::<0>();
    empty_list_case::<1>();
    empty_list_case::<3>();
    empty_list_case::<7>();
}
