//! Harnesses that are children of `crate::errorcode::galois`.
#![allow(dead_code, unused_imports, unused_variables)]
use super::*;
use crate::verif_ref::gf as rgf;

/// Table multiplication == shift-and-xor multiplication mod 0x12D, all 65536 pairs.
#[kani::proof]
fn gf_mul() {
    let a: u8 = kani::any();
    let b: u8 = kani::any();
    assert!((GF(a) * GF(b)).0 == rgf::mul(a, b));
}

/// Division is the inverse of multiplication for every non-zero divisor.
#[kani::proof]
fn gf_div() {
    let a: u8 = kani::any();
    let b: u8 = kani::any();
    kani::assume(b != 0);
    let q = GF(a) / GF(b);
    assert!(rgf::mul(q.0, b) == a);
}

/// log / primitive_power are mutually inverse and agree with 2^i.
#[kani::proof]
#[kani::unwind(9)]
fn gf_log_pow() {
    let a: u8 = kani::any();
    kani::assume(a != 0);
    let l = GF(a).log();
    assert!(l < 255);
    assert!(GF::primitive_power(l as u8).0 == a);
    // primitive_power(i+1) = 2 * primitive_power(i), primitive_power(0) = 1
    let i: u8 = kani::any();
    kani::assume(i < 254);
    assert!(GF::primitive_power(0).0 == 1);
    assert!(GF::primitive_power(i + 1).0 == rgf::mul(GF::primitive_power(i).0, 2));
    // addition / subtraction / negation are xor / identity
    let b: u8 = kani::any();
    assert!((GF(a) + GF(b)).0 == a ^ b && (GF(a) - GF(b)).0 == a ^ b && (-GF(a)).0 == a);
}
