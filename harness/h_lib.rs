//! Harnesses at the crate root (DataMatrixBuilder, DataMatrix).
#![allow(dead_code, unused_imports, unused_variables, static_mut_refs)]
use super::*;
use crate::verif_ref::charset as cs;
use alloc::{string::String, vec, vec::Vec};

static mut REC_DATA: [u8; 8] = [0; 8];
static mut REC_LEN: usize = 0;
static mut REC_ECI: Option<u32> = None;
static mut REC_CALLS: usize = 0;

/// Recording stub for DataMatrixBuilder::encode_eci (the rest of the pipeline
/// is the subject of other lemmas): notes its arguments and fails.
fn stub_encode_eci(
    _this: DataMatrixBuilder,
    data: &[u8],
    eci: Option<u32>,
) -> Result<DataMatrix, DataEncodingError> {
    unsafe {
        REC_CALLS += 1;
        REC_LEN = data.len();
        REC_ECI = eci;
        if data.len() > 0 { REC_DATA[0] = data[0]; }
        if data.len() > 1 { REC_DATA[1] = data[1]; }
        if data.len() > 2 { REC_DATA[2] = data[2]; }
        if data.len() > 3 { REC_DATA[3] = data[3]; }
        if data.len() > 4 { REC_DATA[4] = data[4]; }
        if data.len() > 5 { REC_DATA[5] = data[5]; }
        if data.len() > 6 { REC_DATA[6] = data[6]; }
        if data.len() > 7 { REC_DATA[7] = data[7]; }
    }
    Err(DataEncodingError::SymbolListEmpty)
}

/// encode_str dispatch for every 1..=2 character string: printable ISO-8859-1
/// strings are handed on as Latin-1 bytes without ECI, everything else as its
/// UTF-8 bytes with ECI 26.
#[kani::proof]
#[kani::unwind(10)]
#[kani::stub(DataMatrixBuilder::encode_eci, stub_encode_eci)]
fn str_dispatch() {
    dispatch(kani::any());
}

/// The one-character strings alone.
#[kani::proof]
#[kani::unwind(10)]
#[kani::stub(DataMatrixBuilder::encode_eci, stub_encode_eci)]
fn str_dispatch_1() {
    dispatch_c(false, kani::any(), 'a');
}

/// One character from U+0000..=U+00FF (every control character and the whole
/// Latin-1 range are in here): the cheap version for the quick tier.
#[kani::proof]
#[kani::unwind(10)]
#[kani::stub(DataMatrixBuilder::encode_eci, stub_encode_eci)]
fn str_dispatch_lo() {
    let b: u8 = kani::any();
    dispatch_c(false, b as char, 'a');
}

fn dispatch(two: bool) {
    dispatch_c(two, kani::any(), kani::any());
}

fn dispatch_c(two: bool, c1: char, c2: char) {
    let mut buf = [0u8; 8];
    let n1 = c1.encode_utf8(&mut buf[..4]).len();
    let n2 = if two { c2.encode_utf8(&mut buf[n1..]).len() } else { 0 };
    let text = match core::str::from_utf8(&buf[..n1 + n2]) {
        Ok(t) => t,
        Err(_) => {
            assert!(false);
            return;
        }
    };
    let b = DataMatrixBuilder {
        encodation_types: EncodationType::all(),
        symbol_list: SymbolList::with_whitelist([]),
        use_macros: true,
        fnc1_start: false,
    };
    let _ = b.encode_str(text);
    let p = |c: char| -> bool {
        let cp = c as u32;
        (cp >= 0x20 && cp <= 0x7E) || (cp >= 0xA0 && cp <= 0xFF)
    };
    let latin = p(c1) && (!two || p(c2));
    unsafe {
        assert!(REC_CALLS == 1);
        if latin {
            assert!(REC_ECI.is_none());
            assert!(REC_LEN == if two { 2 } else { 1 });
            assert!(REC_DATA[0] as u32 == c1 as u32);
            assert!(!two || REC_DATA[1] as u32 == c2 as u32);
            kani::cover!(c1 as u32 >= 0xA0);
        } else {
            assert!(REC_ECI == Some(26));
            assert!(REC_LEN == n1 + n2);
            assert!(REC_DATA[0] == buf[0] && REC_DATA[1] == buf[1] && REC_DATA[2] == buf[2] && REC_DATA[3] == buf[3]);
            assert!(REC_DATA[4] == buf[4] && REC_DATA[5] == buf[5] && REC_DATA[6] == buf[6] && REC_DATA[7] == buf[7]);
            kani::cover!((c1 as u32) < 0x20);
        }
    }
}
