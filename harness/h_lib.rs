//! Harnesses at the crate root (DataMatrixBuilder, DataMatrix).
#![allow(dead_code, unused_imports, unused_variables, static_mut_refs)]
use super::*;
use crate::verif_ref::charset as cs;
use alloc::{string::String, vec, vec::Vec};

static mut REC_DATA: [u8; 8] = [0; 8];
static mut REC_LEN: usize = 0;
static mut REC_ECI: Option<u32> = None;
static mut REC_CALLS: usize = 0;

/// Recording stub for DataMatrixBuilder::encode_eci (the rest of the pipeline
/// is the subject of other lemmas): notes its arguments and fails.
fn stub_encode_eci(
    _this: DataMatrixBuilder,
    data: &[u8],
    eci: Option<u32>,
) -> Result<DataMatrix, DataEncodingError> {
    unsafe {
        REC_CALLS += 1;
        REC_LEN = data.len();
        REC_ECI = eci;
        if data.len() > 0 { REC_DATA[0] = data[0]; }
        if data.len() > 1 { REC_DATA[1] = data[1]; }
        if data.len() > 2 { REC_DATA[2] = data[2]; }
        if data.len() > 3 { REC_DATA[3] = data[3]; }
        if data.len() > 4 { REC_DATA[4] = data[4]; }
        if data.len() > 5 { REC_DATA[5] = data[5]; }
        if data.len() > 6 { REC_DATA[6] = data[6]; }
        if data.len() > 7 { REC_DATA[7] = data[7]; }
    }
    Err(DataEncodingError::SymbolListEmpty)
}

fn printable_latin1(cp: u32) -> bool {
    (cp >= 0x20 && cp <= 0x7E) || (cp >= 0xA0 && cp <= 0xFF)
}

/// encode_str dispatch on a string given as LEN bytes of valid UTF-8 (the
/// length is concrete: a symbolic str length makes CBMC unroll every loop of
/// chars()/from_utf8 to the bound).  `cps` are the code points of the string.
fn dispatch_bytes<const LEN: usize>(buf: [u8; LEN], cps: [u32; 2], nchars: usize) {
    let text = match core::str::from_utf8(&buf) {
        Ok(t) => t,
        Err(_) => {
            assert!(false);
            return;
        }
    };
    let b = DataMatrixBuilder {
        encodation_types: EncodationType::all(),
        symbol_list: SymbolList::with_whitelist([]),
        use_macros: true,
        fnc1_start: false,
    };
    let _ = b.encode_str(text);
    let latin = printable_latin1(cps[0]) && (nchars < 2 || printable_latin1(cps[1]));
    unsafe {
        assert!(REC_CALLS == 1);
        if latin {
            // Latin-1 bytes, no ECI
            assert!(REC_ECI.is_none());
            assert!(REC_LEN == nchars);
            assert!(REC_DATA[0] as u32 == cps[0]);
            assert!(nchars < 2 || REC_DATA[1] as u32 == cps[1]);
        } else {
            // UTF-8 bytes with ECI 26
            assert!(REC_ECI == Some(26));
            assert!(REC_LEN == LEN);
            let mut k = 0;
            while k < LEN {
                assert!(REC_DATA[k] == buf[k]);
                k += 1;
            }
        }
        REC_CALLS = 0;
    }
    kani::cover!(latin);
    kani::cover!(!latin);
}

/// Every one-character string U+0000..=U+007F (all C0 controls, DEL, printable ASCII).
#[kani::proof]
#[kani::unwind(10)]
#[kani::stub(DataMatrixBuilder::encode_eci, stub_encode_eci)]
fn str_dispatch_ascii() {
    let b: u8 = kani::any();
    kani::assume(b < 0x80);
    dispatch_bytes::<1>([b], [b as u32, 0], 1);
}

/// Every one-character string U+0080..=U+07FF (C1 controls, Latin-1 supplement, beyond).
#[kani::proof]
#[kani::unwind(10)]
#[kani::stub(DataMatrixBuilder::encode_eci, stub_encode_eci)]
fn str_dispatch_2byte() {
    let cp: u32 = kani::any();
    kani::assume(cp >= 0x80 && cp <= 0x7FF);
    dispatch_bytes::<2>([0xC0 | (cp >> 6) as u8, 0x80 | (cp & 63) as u8], [cp, 0], 1);
}

/// Every two-character ASCII string (order, controls in either position).
#[kani::proof]
#[kani::unwind(10)]
#[kani::stub(DataMatrixBuilder::encode_eci, stub_encode_eci)]
fn str_dispatch_2ascii() {
    let a: u8 = kani::any();
    let b: u8 = kani::any();
    kani::assume(a < 0x80 && b < 0x80);
    dispatch_bytes::<2>([a, b], [a as u32, b as u32], 2);
}

/// Every one-character string U+0800..=U+FFFF without surrogates.
#[kani::proof]
#[kani::unwind(10)]
#[kani::stub(DataMatrixBuilder::encode_eci, stub_encode_eci)]
fn str_dispatch_3byte() {
    let cp: u32 = kani::any();
    kani::assume(cp >= 0x800 && cp <= 0xFFFF && !(cp >= 0xD800 && cp <= 0xDFFF));
    dispatch_bytes::<3>([0xE0 | (cp >> 12) as u8, 0x80 | ((cp >> 6) & 63) as u8, 0x80 | (cp & 63) as u8], [cp, 0], 1);
}
