//! Harnesses that are children of `crate::placement` (IndexTraversal, MatrixMap internals).
#![allow(dead_code, unused_imports, unused_variables)]
use super::*;
use crate::symbol_size::verif_sym::VARIANTS;
use crate::verif_ref::annexf::{self, Module, Placer, FIXED};
use crate::verif_ref::tables::TABLE;
use alloc::{vec, vec::Vec};

/// IndexTraversal::run against Annex F for one mapping-matrix shape (closed
/// term): every (codeword, bit) lands on the standard's module, each module is
/// hit exactly once, and the untouched modules are exactly the fixed corner
/// pattern of 12x12, 16x16, 20x20, 24x24.
fn pl_idx<const N: usize>(idx: usize) {
    let t = TABLE[idx];
    let size = VARIANTS[idx];
    let bs = size.block_setup();
    let h = bs.content_height();
    let w = bs.content_width();
    assert!(h == t.rows - 2 * t.reg_v && w == t.cols - 2 * t.reg_h && h * w == N);
    let mut p = Placer::<N>::new(h, w);
    p.ecc200();
    assert!(!p.clash);
    assert!(p.nchr == t.data + t.ecc);
    // what the crate's traversal assigns: got[m] = 8 * (codeword + 1) + bit, 0 = untouched
    let mut got = [0u16; N];
    let mut count = 0usize;
    let mut bad = false;
    IndexTraversal { width: w, height: h }.run(|cw, ix| {
        let mut b = 0;
        while b < 8 {
            if ix[b] >= N || got[ix[b]] != 0 {
                bad = true;
            } else {
                got[ix[b]] = (8 * (cw + 1) + b) as u16;
            }
            b += 1;
        }
        count += 1;
    });
    assert!(!bad);
    assert!(count == t.data + t.ecc);
    let pad = size.has_padding_modules();
    let mut m = 0;
    while m < N {
        let want = if p.arr[m] == FIXED { 0 } else { p.arr[m] };
        assert!(got[m] == want);
        m += 1;
    }
    // untouched modules: none, or the 2x2 corner with dark on the diagonal (as written by write_padding)
    if pad {
        assert!(p.arr[N - 1] == FIXED && p.arr[N - w - 2] == FIXED && p.arr[N - 2] == 0 && p.arr[N - w - 1] == 0);
        assert!(8 * (t.data + t.ecc) + 4 == N);
    } else {
        assert!(8 * (t.data + t.ecc) == N);
    }
}

macro_rules! plidx {
    ($name:ident, $unwind:expr, $n:expr, $i:expr) => {
        #[kani::proof]
        #[kani::unwind($unwind)]
        fn $name() {
            pl_idx::<$n>($i);
        }
    };
}
// (name, unwind > modules, modules of the mapping matrix, index into VARIANTS/TABLE)
plidx!(pl_idx_sq10, 70, 64, 0);
plidx!(pl_idx_sq12, 110, 100, 1);
plidx!(pl_idx_sq14, 150, 144, 2);
plidx!(pl_idx_sq16, 200, 196, 3);
plidx!(pl_idx_sq18, 260, 256, 4);
plidx!(pl_idx_sq20, 330, 324, 5);
plidx!(pl_idx_sq22, 410, 400, 6);
plidx!(pl_idx_sq24, 490, 484, 7);
plidx!(pl_idx_sq26, 580, 576, 8);
plidx!(pl_idx_sq32, 790, 784, 9);
plidx!(pl_idx_sq36, 1030, 1024, 10);
plidx!(pl_idx_sq40, 1300, 1296, 11);
plidx!(pl_idx_sq44, 1610, 1600, 12);
plidx!(pl_idx_r8x18, 100, 96, 24);
plidx!(pl_idx_r8x32, 170, 168, 25);
plidx!(pl_idx_r12x26, 250, 240, 26);
plidx!(pl_idx_r12x36, 330, 320, 27);
plidx!(pl_idx_r16x36, 450, 448, 28);
plidx!(pl_idx_r16x48, 620, 616, 29);
plidx!(pl_idx_r8x48, 270, 264, 30);
plidx!(pl_idx_r8x64, 340, 336, 31);
plidx!(pl_idx_r8x80, 440, 432, 32);
plidx!(pl_idx_r8x96, 530, 528, 33);
plidx!(pl_idx_r8x120, 650, 648, 34);
plidx!(pl_idx_r8x144, 800, 792, 35);
plidx!(pl_idx_r12x64, 570, 560, 36);
plidx!(pl_idx_r12x88, 810, 800, 37);
plidx!(pl_idx_r16x64, 790, 784, 38);
plidx!(pl_idx_r20x36, 580, 576, 39);
plidx!(pl_idx_r20x44, 730, 720, 40);
plidx!(pl_idx_r20x64, 1010, 1008, 41);
plidx!(pl_idx_r22x48, 890, 880, 42);
plidx!(pl_idx_r24x48, 970, 968, 43);
plidx!(pl_idx_r24x64, 1240, 1232, 44);
plidx!(pl_idx_r26x40, 870, 864, 45);
plidx!(pl_idx_r26x48, 1060, 1056, 46);
plidx!(pl_idx_r26x64, 1350, 1344, 47);

/// The loop-free pieces for SYMBOLIC geometry: idx / utah / corner1-4 of any
/// even mapping matrix 6..=132 x 6..=132 agree with the standard's module()
/// (incl. the DMRE row wrap) wherever that is inside the matrix.
#[kani::proof]
fn pl_cell_any() {
    let h: usize = kani::any();
    let w: usize = kani::any();
    kani::assume(h >= 6 && h <= 132 && h % 2 == 0 && w >= 6 && w <= 132 && w % 2 == 0);
    let i: isize = kani::any();
    let j: isize = kani::any();
    kani::assume(i >= 0 && i < h as isize && j >= 0 && j < w as isize);
    let p = Placer::<1> { nrow: h as isize, ncol: w as isize, arr: [0; 1], nchr: 0, clash: false };
    let t = IndexTraversal { width: w, height: h };
    let inside = |r: isize, c: isize| -> bool {
        // the standard's wrapped coordinates stay inside for every call the sweep makes on a real shape
        let mut r = r;
        let mut c = c;
        if r < 0 { r += h as isize; c += 4 - ((h as isize + 4) % 8); }
        if c < 0 { c += w as isize; r += 4 - ((w as isize + 4) % 8); }
        if r >= h as isize { r -= h as isize; }
        r >= 0 && r < h as isize && c >= 0 && c < w as isize
    };
    let offs: [(isize, isize); 8] = [(-2, -2), (-2, -1), (-1, -2), (-1, -1), (-1, 0), (0, -2), (0, -1), (0, 0)];
    let mut all_in = true;
    let mut b = 0;
    while b < 8 {
        if !inside(i + offs[b].0, j + offs[b].1) {
            all_in = false;
        }
        b += 1;
    }
    if all_in {
        let u = t.utah(i, j);
        b = 0;
        while b < 8 {
            assert!(u[b] == p.module_index(i + offs[b].0, j + offs[b].1));
            b += 1;
        }
    }
    let (hh, ww) = (h as isize, w as isize);
    let c1 = t.corner1();
    let e1 = [(hh - 1, 0), (hh - 1, 1), (hh - 1, 2), (0, ww - 2), (0, ww - 1), (1, ww - 1), (2, ww - 1), (3, ww - 1)];
    let c2 = t.corner2();
    let e2 = [(hh - 3, 0), (hh - 2, 0), (hh - 1, 0), (0, ww - 4), (0, ww - 3), (0, ww - 2), (0, ww - 1), (1, ww - 1)];
    let c3 = t.corner3();
    let e3 = [(hh - 3, 0), (hh - 2, 0), (hh - 1, 0), (0, ww - 2), (0, ww - 1), (1, ww - 1), (2, ww - 1), (3, ww - 1)];
    let c4 = t.corner4();
    let e4 = [(hh - 1, 0), (hh - 1, ww - 1), (0, ww - 3), (0, ww - 2), (0, ww - 1), (1, ww - 3), (1, ww - 2), (1, ww - 1)];
    b = 0;
    while b < 8 {
        assert!(c1[b] == (e1[b].0 * ww + e1[b].1) as usize);
        assert!(c2[b] == (e2[b].0 * ww + e2[b].1) as usize);
        assert!(c3[b] == (e3[b].0 * ww + e3[b].1) as usize);
        assert!(c4[b] == (e4[b].0 * ww + e4[b].1) as usize);
        b += 1;
    }
    kani::cover!(all_in && i == 0 && j == 0);
}

/// write -> read identity and standard positions for a SYMBOLIC codeword vector.
fn pl_rw<const N: usize>(idx: usize) {
    let t = TABLE[idx];
    let size = VARIANTS[idx];
    let n = t.data + t.ecc;
    let data: [u8; 24] = kani::any();
    let m = MatrixMap::<bool>::new_with_codewords(&data[..n], size);
    let h = t.rows - 2 * t.reg_v;
    let w = t.cols - 2 * t.reg_h;
    let mut p = Placer::<N>::new(h, w);
    p.ecc200();
    let mut k = 0;
    while k < N {
        let a = p.arr[k];
        if a == FIXED {
            assert!(m.entries[k]);
        } else if a == 0 {
            assert!(!m.entries[k]);
        } else {
            let chr = (a / 8) as usize - 1;
            let bit = (a % 8) as u32;
            assert!(m.entries[k] == ((data[chr] >> (7 - bit)) & 1 == 1));
        }
        k += 1;
    }
    let back = m.codewords();
    assert!(back.len() == n);
    k = 0;
    while k < 24 {
        if k < n {
            assert!(back[k] == data[k]);
        }
        k += 1;
    }
}

#[kani::proof]
#[kani::unwind(70)]
fn pl_rw_sq10() {
    pl_rw::<64>(0);
}

#[kani::proof]
#[kani::unwind(102)]
fn pl_rw_sq12() {
    pl_rw::<100>(1);
}

#[kani::proof]
#[kani::unwind(102)]
fn pl_rw_r8x18() {
    pl_rw::<96>(24);
}

/// Rendering: every module of bitmap() is the standard's finder / clock /
/// alignment value or the mapping-matrix entry at the region-offset position.
fn fd_render(idx: usize) {
    let t = TABLE[idx];
    let size = VARIANTS[idx];
    let h = t.rows - 2 * t.reg_v;
    let w = t.cols - 2 * t.reg_h;
    let mut m = MatrixMap::<bool>::new(size);
    let mut k = 0;
    while k < h * w {
        m.entries[k] = kani::any();
        k += 1;
    }
    let bm = m.bitmap();
    assert!(bm.width == t.cols && bm.bits.len() == t.rows * t.cols);
    let mut r = 0;
    while r < t.rows {
        let mut c = 0;
        while c < t.cols {
            let got = bm.bits[r * t.cols + c];
            match annexf::module_kind(t.rows, t.cols, t.reg_v, t.reg_h, r, c) {
                Module::Dark => assert!(got),
                Module::Light => assert!(!got),
                Module::Data(i) => assert!(got == m.entries[i]),
            }
            c += 1;
        }
        r += 1;
    }
}

macro_rules! fdr {
    ($name:ident, $unwind:expr, $i:expr) => {
        #[kani::proof]
        #[kani::unwind($unwind)]
        fn $name() {
            fd_render($i);
        }
    };
}
fdr!(fd_render_sq10, 102, 0);
fdr!(fd_render_r8x18, 146, 24);
fdr!(fd_render_r8x32, 260, 25);
fdr!(fd_render_sq32, 1030, 9);
fdr!(fd_render_r12x36, 440, 27);
fdr!(fd_render_r8x64, 520, 31);

// ---------------------------------------------------------------------------
// try_from_bits (C08 parse / strictness, C05).  The size lookup is narrowed to
// one size by stubs (see symbol_size::verif_sym): the 48-element B-tree of
// SymbolList::all() cannot be built symbolically.

use crate::symbol_size::verif_sym as vs;

/// Strictness: ANY pixel array of the shape; if it is accepted, re-rendering the
/// parsed content reproduces it bit for bit and the size is the shape's size.
fn fd_strict<const N: usize>(w: usize, size: SymbolSize) {
    let px: [bool; N] = kani::any();
    match MatrixMap::<bool>::try_from_bits(&px, w) {
        Ok((m, s)) => {
            assert!(s == size);
            let bm = m.bitmap();
            assert!(bm.width == w && bm.bits.len() == N);
            let mut k = 0;
            while k < N {
                assert!(bm.bits[k] == px[k]);
                k += 1;
            }
            kani::cover!(true);
        }
        Err(e) => {
            assert!(e == BitmapConversionError::Alignment || e == BitmapConversionError::Padding);
        }
    }
}

#[kani::proof]
#[kani::unwind(102)]
#[kani::stub(crate::symbol_size::SymbolList::all, vs::all_sq10)]
#[kani::stub(crate::symbol_size::SymbolSize::block_setup, vs::bs_sq10)]
#[kani::stub(crate::symbol_size::SymbolSize::has_padding_modules, vs::pad_sq10)]
fn fd_strict_sq10() {
    fd_strict::<100>(10, SymbolSize::Square10);
}

#[kani::proof]
#[kani::unwind(146)]
#[kani::stub(crate::symbol_size::SymbolList::all, vs::all_sq12)]
#[kani::stub(crate::symbol_size::SymbolSize::block_setup, vs::bs_sq12)]
#[kani::stub(crate::symbol_size::SymbolSize::has_padding_modules, vs::pad_sq12)]
fn fd_strict_sq12() {
    fd_strict::<144>(12, SymbolSize::Square12);
}

#[kani::proof]
#[kani::unwind(146)]
#[kani::stub(crate::symbol_size::SymbolList::all, vs::all_r8x18)]
#[kani::stub(crate::symbol_size::SymbolSize::block_setup, vs::bs_r8x18)]
#[kani::stub(crate::symbol_size::SymbolSize::has_padding_modules, vs::pad_r8x18)]
fn fd_strict_r8x18() {
    fd_strict::<144>(18, SymbolSize::Rect8x18);
}

#[kani::proof]
#[kani::unwind(258)]
#[kani::stub(crate::symbol_size::SymbolList::all, vs::all_r8x32)]
#[kani::stub(crate::symbol_size::SymbolSize::block_setup, vs::bs_r8x32)]
#[kani::stub(crate::symbol_size::SymbolSize::has_padding_modules, vs::pad_r8x32)]
fn fd_strict_r8x32() {
    fd_strict::<256>(32, SymbolSize::Rect8x32);
}

/// Parsing a rendering returns the content and the size.
fn fd_parse<const NE: usize>(size: SymbolSize, w: usize) {
    let mut m = MatrixMap::<bool>::new(size);
    let mut k = 0;
    while k < NE {
        m.entries[k] = kani::any();
        k += 1;
    }
    m.write_padding();
    if m.has_padding {
        // the two light modules of the fixed corner pattern
        m.entries[NE - 2] = false;
        m.entries[NE - m.width - 1] = false;
    }
    let bm = m.bitmap();
    match MatrixMap::<bool>::try_from_bits(&bm.bits, bm.width) {
        Ok((m2, s)) => {
            assert!(s == size);
            assert!(m2.width == m.width && m2.height == m.height && m2.has_padding == m.has_padding);
            assert!(m2.extra_vertical_alignments == m.extra_vertical_alignments && m2.extra_horizontal_alignments == m.extra_horizontal_alignments);
            assert!(m2.entries.len() == NE);
            k = 0;
            while k < NE {
                assert!(m2.entries[k] == m.entries[k]);
                k += 1;
            }
        }
        Err(_) => assert!(false),
    }
}

#[kani::proof]
#[kani::unwind(170)]
#[kani::stub(crate::symbol_size::SymbolList::all, vs::all_r8x32)]
#[kani::stub(crate::symbol_size::SymbolSize::block_setup, vs::bs_r8x32)]
#[kani::stub(crate::symbol_size::SymbolSize::has_padding_modules, vs::pad_r8x32)]
fn fd_parse_r8x32() {
    fd_parse::<168>(SymbolSize::Rect8x32, 32);
}

#[kani::proof]
#[kani::unwind(102)]
#[kani::stub(crate::symbol_size::SymbolList::all, vs::all_sq12)]
#[kani::stub(crate::symbol_size::SymbolSize::block_setup, vs::bs_sq12)]
#[kani::stub(crate::symbol_size::SymbolSize::has_padding_modules, vs::pad_sq12)]
fn fd_parse_sq12() {
    fd_parse::<100>(SymbolSize::Square12, 12);
}

/// A correctly sized symbol followed by r stray pixels (r = 1 and r = width-1):
/// DataSize, never a panic.  Width 0: ZeroWidth.  Tiny arrays: SymbolSize.
#[kani::proof]
#[kani::unwind(164)]
#[kani::stub(crate::symbol_size::SymbolList::all, vs::all_r8x18)]
#[kani::stub(crate::symbol_size::SymbolSize::block_setup, vs::bs_r8x18)]
#[kani::stub(crate::symbol_size::SymbolSize::has_padding_modules, vs::pad_r8x18)]
fn fd_ragged_r8x18() {
    let px: [bool; 161] = kani::any();
    let r1 = MatrixMap::<bool>::try_from_bits(&px[..145], 18);
    assert!(r1.err() == Some(BitmapConversionError::DataSize));
    let r2 = MatrixMap::<bool>::try_from_bits(&px[..161], 18);
    assert!(r2.err() == Some(BitmapConversionError::DataSize));
    let r3 = MatrixMap::<bool>::try_from_bits(&px[..144], 0);
    assert!(r3.err() == Some(BitmapConversionError::ZeroWidth));
    let r4 = MatrixMap::<bool>::try_from_bits(&px[..0], 0);
    assert!(r4.err() == Some(BitmapConversionError::ZeroWidth));
}

/// Arrays far too small for any symbol (36, 25 and 0 symbolic pixels) with the
/// widths 0, 5, 6, 12, 3: ZeroWidth / DataSize / SymbolSize exactly as specified,
/// never a panic.  (A symbolic width makes every later slice length symbolic and
/// does not finish; the width axis is therefore sampled at these values.)
#[kani::proof]
#[kani::unwind(42)]
#[kani::stub(crate::symbol_size::SymbolList::all, vs::all_r8x18)]
#[kani::stub(crate::symbol_size::SymbolSize::block_setup, vs::bs_r8x18)]
#[kani::stub(crate::symbol_size::SymbolSize::has_padding_modules, vs::pad_r8x18)]
fn fd_reject_small() {
    let px: [bool; 36] = kani::any();
    assert!(MatrixMap::<bool>::try_from_bits(&px[..36], 0).err() == Some(BitmapConversionError::ZeroWidth));
    assert!(MatrixMap::<bool>::try_from_bits(&px[..36], 5).err() == Some(BitmapConversionError::DataSize));
    assert!(MatrixMap::<bool>::try_from_bits(&px[..36], 6).err() == Some(BitmapConversionError::SymbolSize));
    assert!(MatrixMap::<bool>::try_from_bits(&px[..36], 12).err() == Some(BitmapConversionError::SymbolSize));
    assert!(MatrixMap::<bool>::try_from_bits(&px[..25], 5).err() == Some(BitmapConversionError::SymbolSize));
    assert!(MatrixMap::<bool>::try_from_bits(&px[..25], 12).err() == Some(BitmapConversionError::DataSize));
    assert!(MatrixMap::<bool>::try_from_bits(&px[..0], 3).err() == Some(BitmapConversionError::SymbolSize));
}

/// Every single-module deviation from a valid rendering: the empty symbol of the
/// shape with ONE module flipped at a symbolic position.  A flipped data module is
/// accepted and comes back as exactly that entry; a flipped finder / clock /
/// alignment (or fixed-corner) module is rejected.
fn fd_flip<const N: usize>(idx: usize) {
    let t = TABLE[idx];
    let size = VARIANTS[idx];
    assert!(t.rows * t.cols == N);
    let mut m = MatrixMap::<bool>::new(size);
    m.write_padding();
    let bm = m.bitmap();
    let mut px = [false; N];
    let mut i = 0;
    while i < N {
        px[i] = bm.bits[i];
        i += 1;
    }
    let k: usize = kani::any();
    kani::assume(k < N);
    px[k] = !px[k];
    let r = MatrixMap::<bool>::try_from_bits(&px, t.cols);
    let h = t.rows - 2 * t.reg_v;
    let w = t.cols - 2 * t.reg_h;
    match annexf::module_kind(t.rows, t.cols, t.reg_v, t.reg_h, k / t.cols, k % t.cols) {
        Module::Data(e) => {
            let corner = size.has_padding_modules() && (e == h * w - 1 || e == h * w - 2 || e == h * w - w - 1 || e == h * w - w - 2);
            if corner {
                assert!(r.is_err());
            } else {
                match r {
                    Ok((m2, s)) => {
                        assert!(s == size);
                        assert!(m2.entries[e] != m.entries[e]);
                    }
                    Err(_) => assert!(false),
                }
            }
        }
        _ => {
            assert!(r.err() == Some(BitmapConversionError::Alignment));
        }
    }
}

#[kani::proof]
#[kani::unwind(258)]
#[kani::stub(crate::symbol_size::SymbolList::all, vs::all_r8x32)]
#[kani::stub(crate::symbol_size::SymbolSize::block_setup, vs::bs_r8x32)]
#[kani::stub(crate::symbol_size::SymbolSize::has_padding_modules, vs::pad_r8x32)]
fn fd_flip_r8x32() {
    fd_flip::<256>(25);
}

#[kani::proof]
#[kani::unwind(146)]
#[kani::stub(crate::symbol_size::SymbolList::all, vs::all_sq12)]
#[kani::stub(crate::symbol_size::SymbolSize::block_setup, vs::bs_sq12)]
#[kani::stub(crate::symbol_size::SymbolSize::has_padding_modules, vs::pad_sq12)]
fn fd_flip_sq12() {
    fd_flip::<144>(1);
}

#[kani::proof]
#[kani::unwind(1026)]
#[kani::stub(crate::symbol_size::SymbolList::all, vs::all_sq32)]
#[kani::stub(crate::symbol_size::SymbolSize::block_setup, vs::bs_sq32)]
#[kani::stub(crate::symbol_size::SymbolSize::has_padding_modules, vs::pad_sq32)]
fn fd_flip_sq32() {
    fd_flip::<1024>(9);
}
