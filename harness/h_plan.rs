//! Harnesses that are children of `crate::encodation::planner`: the per-mode
//! cost models (Plan implementations) over an array backed ContextInformation,
//! alone (C11) and coupled with the real encoders (C18).
#![allow(dead_code, unused_imports, unused_variables)]
use super::*;
use crate::decodation::verif_dec as vd;
use crate::encodation::verif_enc::{self as ve, CAPS, NI};
use alloc::{vec, vec::Vec};

#[derive(Clone, Debug, PartialEq)]
pub(crate) struct HPlan {
    pub inp: [u8; NI],
    pub n: usize,
    pub cur: usize,
    pub written: usize,
    pub caps: [usize; 3],
}

impl ContextInformation for HPlan {
    fn symbol_size_left(&self, extra: usize) -> Option<usize> {
        let need = self.written + extra;
        let cap = if self.caps[0] >= need {
            self.caps[0]
        } else if self.caps[1] >= need {
            self.caps[1]
        } else if self.caps[2] >= need {
            self.caps[2]
        } else {
            return None;
        };
        Some(cap - need)
    }

    fn rest(&self) -> &[u8] {
        &self.inp[self.cur..self.n]
    }

    fn eat(&mut self) -> Option<u8> {
        if self.cur < self.n {
            let c = self.inp[self.cur];
            self.cur += 1;
            Some(c)
        } else {
            None
        }
    }

    fn write(&mut self, bytes: usize) {
        self.written += bytes;
    }
}

fn frac_to_cw(f: Frac) -> usize {
    // smallest integer >= f (Frac's numerator is private to its module); written
    // out without a loop so that it does not dictate the unwinding bound
    let mut c: usize = 0;
    macro_rules! up {
        ($($v:expr),*) => { $( if Frac::from($v as u32) < f { c = $v + 1; } )* };
    }
    up!(0, 1, 2, 3, 4, 5, 6, 7, 8, 9, 10, 11, 12, 13, 14, 15, 16, 17, 18, 19, 20, 21, 22, 23);
    c
}

fn pick_caps() -> [usize; 3] {
    let i0: usize = kani::any();
    let i1: usize = kani::any();
    let i2: usize = kani::any();
    kani::assume(i0 < 14 && i1 < 14 && i2 < 14 && i0 <= i1 && i1 <= i2);
    [CAPS[i0], CAPS[i1], CAPS[i2]]
}

/// Step a plan over the whole input; returns ceil(cost) in codewords, or None
/// if the mode cannot take the input (step returned None).
fn run_plan<P: Plan>(mut p: P, n: usize) -> Option<usize> {
    let mut i = 0;
    while i <= NI {
        if i <= n {
            let r = p.step()?;
            // exercise the other entry points too (C11: no overflow / assertion in any of them)
            let _ = p.mode_switch_cost();
            let _ = p.cost();
            if r.end {
                assert!(i == n);
                return Some(frac_to_cw(p.cost().ceil()));
            }
        }
        i += 1;
    }
    assert!(false);
    None
}

/// Coupling of the end-of-data cost model of one mode with its encoder: for a
/// run of L arbitrary characters that goes to the end of the data, starting
/// with n0 codewords already written (latch included), the real encoder never
/// needs a larger symbol than the one the plan's ceil(cost) selects.
fn cpl<const L: usize>(mode: u8) {
    let chars: [u8; L] = kani::any();
    let mut inp = [0u8; NI];
    let mut i = 0;
    while i < L {
        inp[i] = chars[i];
        i += 1;
    }
    let n0: usize = kani::any();
    kani::assume(n0 >= 1 && n0 <= 10);
    let caps = pick_caps();
    let ctx = HPlan { inp, n: L, cur: 0, written: n0, caps };
    let planned = if mode == vd::M_ASCII {
        run_plan(ascii::AsciiPlan::new(ctx), L)
    } else if mode == vd::M_C40 {
        run_plan(c40::C40Plan::new(ctx), L)
    } else if mode == vd::M_TEXT {
        run_plan(text::TextPlan::new(ctx), L)
    } else if mode == vd::M_X12 {
        run_plan(x12::X12Plan::new(ctx), L)
    } else if mode == vd::M_EDIFACT {
        run_plan(edifact::EdifactPlan::new(ctx), L)
    } else {
        run_plan(base256::Base256Plan::new(ctx), L)
    };
    let planned = match planned {
        Some(c) => c,
        None => return, // the planner does not offer this mode for this input
    };
    let cap_of = |need: usize| -> Option<usize> {
        if caps[0] >= need { Some(caps[0]) } else if caps[1] >= need { Some(caps[1]) } else if caps[2] >= need { Some(caps[2]) } else { None }
    };
    let planned_cap = match cap_of(n0 + planned) {
        Some(c) => c,
        None => return, // the plan itself does not fit: optimize drops it
    };
    let written = ve::run_to_end(mode, inp, L, n0, caps);
    match written {
        Some(w) => {
            let real_cap = cap_of(n0 + w);
            assert!(real_cap.is_some() && real_cap.unwrap() <= planned_cap);
            kani::cover!(w == planned);
        }
        None => {
            // the plan fits but the encoder says "too much data"
            assert!(false);
        }
    }
}

macro_rules! cplh {
    ($name:ident, $unwind:expr, $mode:expr, $l:expr) => {
        #[kani::proof]
        #[kani::unwind($unwind)]
        fn $name() {
            cpl::<$l>($mode);
        }
    };
}
cplh!(cpl_ascii_3, 11, vd::M_ASCII, 3);
cplh!(cpl_c40_2, 11, vd::M_C40, 2);
cplh!(cpl_c40_3, 11, vd::M_C40, 3);
cplh!(cpl_text_2, 11, vd::M_TEXT, 2);
cplh!(cpl_x12_3, 11, vd::M_X12, 3);
cplh!(cpl_x12_4, 11, vd::M_X12, 4);
cplh!(cpl_x12_5, 11, vd::M_X12, 5);
cplh!(cpl_edifact_2, 11, vd::M_EDIFACT, 2);
cplh!(cpl_edifact_3, 11, vd::M_EDIFACT, 3);
cplh!(cpl_edifact_4, 11, vd::M_EDIFACT, 4);
cplh!(cpl_edifact_5, 11, vd::M_EDIFACT, 5);
cplh!(cpl_b256_2, 11, vd::M_B256, 2);
