//! Harnesses that are children of `crate::symbol_size` (catalogue, Ord, filters, list queries).
#![allow(dead_code, unused_imports, unused_variables)]
use super::*;
use crate::verif_ref::tables::{Attr, TABLE};
use alloc::{vec, vec::Vec};
use core::ops::Bound;

/// The 48 variants in the order of `ref::tables::TABLE`.
pub(crate) const VARIANTS: [SymbolSize; 48] = [
    SymbolSize::Square10, SymbolSize::Square12, SymbolSize::Square14, SymbolSize::Square16,
    SymbolSize::Square18, SymbolSize::Square20, SymbolSize::Square22, SymbolSize::Square24,
    SymbolSize::Square26, SymbolSize::Square32, SymbolSize::Square36, SymbolSize::Square40,
    SymbolSize::Square44, SymbolSize::Square48, SymbolSize::Square52, SymbolSize::Square64,
    SymbolSize::Square72, SymbolSize::Square80, SymbolSize::Square88, SymbolSize::Square96,
    SymbolSize::Square104, SymbolSize::Square120, SymbolSize::Square132, SymbolSize::Square144,
    SymbolSize::Rect8x18, SymbolSize::Rect8x32, SymbolSize::Rect12x26, SymbolSize::Rect12x36,
    SymbolSize::Rect16x36, SymbolSize::Rect16x48,
    SymbolSize::Rect8x48, SymbolSize::Rect8x64, SymbolSize::Rect8x80, SymbolSize::Rect8x96,
    SymbolSize::Rect8x120, SymbolSize::Rect8x144, SymbolSize::Rect12x64, SymbolSize::Rect12x88,
    SymbolSize::Rect16x64, SymbolSize::Rect20x36, SymbolSize::Rect20x44, SymbolSize::Rect20x64,
    SymbolSize::Rect22x48, SymbolSize::Rect24x48, SymbolSize::Rect24x64, SymbolSize::Rect26x40,
    SymbolSize::Rect26x48, SymbolSize::Rect26x64,
];

fn any_idx() -> usize {
    let i: usize = kani::any();
    kani::assume(i < 48);
    i
}

/// Every attribute of every size against the standards' tables.
#[kani::proof]
fn cat_attr() {
    let i = any_idx();
    let s = VARIANTS[i];
    let t = TABLE[i];
    let bs = s.block_setup();
    assert!(s.num_data_codewords() == t.data);
    assert!(bs.height == t.rows && bs.width == t.cols);
    assert!(bs.num_ecc_blocks == t.blocks);
    assert!(bs.num_ecc_blocks * bs.num_ecc_per_block == t.ecc);
    assert!(bs.extra_vertical_alignments == t.reg_h - 1);
    assert!(bs.extra_horizontal_alignments == t.reg_v - 1);
    assert!(s.is_square() == (t.rows == t.cols));
    assert!(s.is_dmre() == t.dmre);
    let pad = t.rows == t.cols && (t.rows == 12 || t.rows == 16 || t.rows == 20 || t.rows == 24);
    assert!(s.has_padding_modules() == pad);
    // mapping matrix = symbol minus finder/alignment modules; 8 modules per codeword (+4 left over)
    assert!(bs.content_width() == t.cols - 2 * t.reg_h && bs.content_height() == t.rows - 2 * t.reg_v);
    assert!(bs.content_width() * bs.content_height() == 8 * (t.data + t.ecc) + if pad { 4 } else { 0 });
    // the fail-early bound must not under-estimate (two digits per codeword is the densest
    // encodation), and the Base256 bound cannot exceed the codeword count
    let c = s.capacity();
    assert!(c.max >= 2 * t.data);
    assert!(c.min <= t.data);
    kani::cover!(i == 47);
}

/// Pixel dimensions identify a size; Ord is a total order consistent with Eq
/// and monotone in the data capacity.
#[kani::proof]
fn cat_ord() {
    let i = any_idx();
    let j = any_idx();
    let k = any_idx();
    let (a, b, c) = (VARIANTS[i], VARIANTS[j], VARIANTS[k]);
    let (ba, bb) = (a.block_setup(), b.block_setup());
    if i != j {
        assert!(ba.width != bb.width || ba.height != bb.height);
        assert!(a != b);
        assert!(a.cmp(&b) != Ordering::Equal);
    } else {
        assert!(a == b && a.cmp(&b) == Ordering::Equal);
    }
    assert!(a.cmp(&b) == b.cmp(&a).reverse());
    assert!(a.partial_cmp(&b) == Some(a.cmp(&b)));
    if a.cmp(&b) == Ordering::Less && b.cmp(&c) == Ordering::Less {
        assert!(a.cmp(&c) == Ordering::Less);
    }
    if a.cmp(&b) == Ordering::Less {
        assert!(a.num_data_codewords() <= b.num_data_codewords());
    }
    kani::cover!(a.cmp(&b) == Ordering::Less && a.num_data_codewords() == b.num_data_codewords());
}

/// The private SYMBOL_SIZES array (from which default() and
/// with_extended_rectangles() are collected) lists each of the 48 variants
/// exactly once, in non-decreasing capacity order.
#[kani::proof]
#[kani::unwind(50)]
fn cat_all_once() {
    assert!(SYMBOL_SIZES.len() == 48);
    let i = any_idx();
    let v = VARIANTS[i];
    let mut count = 0;
    let mut k = 0;
    while k < 48 {
        if SYMBOL_SIZES[k] == v {
            count += 1;
        }
        k += 1;
    }
    assert!(count == 1);
    let j: usize = kani::any();
    kani::assume(j < 47);
    assert!(SYMBOL_SIZES[j].cmp(&SYMBOL_SIZES[j + 1]) == Ordering::Less);
}

/// The capacity table used by the encoder harness contexts is the set of real capacities <= 43.
#[kani::proof]
#[kani::unwind(16)]
fn cat_caps_table() {
    let i = any_idx();
    let d = VARIANTS[i].num_data_codewords();
    let caps = crate::encodation::verif_enc::CAPS;
    if d <= 43 {
        let mut found = false;
        let mut k = 0;
        while k < 14 {
            if caps[k] == d {
                found = true;
            }
            k += 1;
        }
        assert!(found);
    }
}

fn list3(i: usize, j: usize, k: usize, n: usize) -> SymbolList {
    // small concrete lists (the B-tree cannot be built from a symbolic subset)
    let all = [SymbolSize::Square10, SymbolSize::Rect8x18, SymbolSize::Square12, SymbolSize::Square14, SymbolSize::Rect8x32, SymbolSize::Rect12x26];
    if n == 0 {
        SymbolList::with_whitelist([])
    } else if n == 1 {
        SymbolList::with_whitelist([all[i]])
    } else if n == 2 {
        SymbolList::with_whitelist([all[i], all[j]])
    } else {
        SymbolList::with_whitelist([all[i], all[j], all[k]])
    }
}

fn any_bound() -> Bound<usize> {
    let v: usize = kani::any();
    kani::assume(v <= 40);
    let k: u8 = kani::any();
    if k == 0 {
        Bound::Unbounded
    } else if k == 1 {
        Bound::Included(v)
    } else {
        Bound::Excluded(v)
    }
}

fn in_bounds(lo: Bound<usize>, hi: Bound<usize>, x: usize) -> bool {
    let a = match lo {
        Bound::Unbounded => true,
        Bound::Included(v) => x >= v,
        Bound::Excluded(v) => x > v,
    };
    let b = match hi {
        Bound::Unbounded => true,
        Bound::Included(v) => x <= v,
        Bound::Excluded(v) => x < v,
    };
    a && b
}

/// Width/height filters with arbitrary range bounds (unbounded / included /
/// excluded at both ends, values 0..=40) on a one-symbol list, and the
/// square/rectangular filters: the symbol is kept iff it satisfies the predicate.
fn bound_of(kind: u8, v: usize) -> Bound<usize> {
    if kind == 0 {
        Bound::Unbounded
    } else if kind == 1 {
        Bound::Included(v)
    } else {
        Bound::Excluded(v)
    }
}

fn filter_on_k(sym: SymbolSize, which: u8, klo: u8, khi: u8) {
    let a: usize = kani::any();
    let b: usize = kani::any();
    kani::assume(a <= 40 && b <= 40);
    let lo = bound_of(klo, a);
    let hi = bound_of(khi, b);
    let list = SymbolList::with_whitelist([sym]);
    let out = if which == 0 { list.enforce_width_in((lo, hi)) } else { list.enforce_height_in((lo, hi)) };
    let bs = sym.block_setup();
    let keep = in_bounds(lo, hi, if which == 0 { bs.width } else { bs.height });
    assert!(out.contains(&sym) == keep);
    assert!(out.is_empty() == !keep);
}

fn filter_on(sym: SymbolSize, which: u8) {
    let lo = any_bound();
    let hi = any_bound();
    let list = SymbolList::with_whitelist([sym]);
    let out = match which {
        0 => list.enforce_width_in((lo, hi)),
        1 => list.enforce_height_in((lo, hi)),
        2 => list.enforce_square(),
        _ => list.enforce_rectangular(),
    };
    let bs = sym.block_setup();
    let keep = match which {
        0 => in_bounds(lo, hi, bs.width),
        1 => in_bounds(lo, hi, bs.height),
        2 => bs.width == bs.height,
        _ => bs.width != bs.height,
    };
    assert!(out.contains(&sym) == keep);
    assert!(out.is_empty() == !keep);
    kani::cover!(!keep);
    kani::cover!(keep);
}

/// Width / height filter on a one-symbol list for every combination of bound
/// kinds (unbounded / included / excluded) x bound values {d-1, d, d+1} around
/// the symbol's dimension d, at both ends (49 closed terms per axis: with a
/// symbolic predicate outcome BTreeSet::retain exhausts CBMC's memory).
fn filter_grid(sym: SymbolSize, which: u8, klo_from: u8, klo_to: u8) {
    let bs = sym.block_setup();
    let d = if which == 0 { bs.width } else { bs.height };
    let mut klo = klo_from;
    while klo < klo_to {
        let mut khi = 0u8;
        while khi < 7 {
            // 0: unbounded, 1..=3: included d-1,d,d+1, 4..=6: excluded d-1,d,d+1
            let mk = |k: u8| -> Bound<usize> {
                if k == 0 {
                    Bound::Unbounded
                } else if k <= 3 {
                    Bound::Included(d + k as usize - 2)
                } else {
                    Bound::Excluded(d + k as usize - 5)
                }
            };
            let (lo, hi) = (mk(klo), mk(khi));
            let list = SymbolList::with_whitelist([sym]);
            let out = if which == 0 { list.enforce_width_in((lo, hi)) } else { list.enforce_height_in((lo, hi)) };
            let keep = in_bounds(lo, hi, d);
            assert!(out.contains(&sym) == keep);
            assert!(out.is_empty() == !keep);
            khi += 1;
        }
        klo += 1;
    }
}

macro_rules! fgrid {
    ($name:ident, $sym:ident, $which:expr, $from:expr, $to:expr) => {
        #[kani::proof]
        #[kani::unwind(9)]
        fn $name() {
            filter_grid(SymbolSize::$sym, $which, $from, $to);
        }
    };
}
// lower bound kinds: 0 unbounded, 1..=3 included d-1,d,d+1, 4..=6 excluded d-1,d,d+1
fgrid!(cat_filter_w_u, Rect8x18, 0, 0, 1);
fgrid!(cat_filter_w_i1, Rect8x18, 0, 1, 2);
fgrid!(cat_filter_w_i2, Rect8x18, 0, 2, 3);
fgrid!(cat_filter_w_i3, Rect8x18, 0, 3, 4);
fgrid!(cat_filter_w_e1, Rect8x18, 0, 4, 5);
fgrid!(cat_filter_w_e2, Rect8x18, 0, 5, 6);
fgrid!(cat_filter_w_e3, Rect8x18, 0, 6, 7);
fgrid!(cat_filter_h_u, Rect12x26, 1, 0, 1);
fgrid!(cat_filter_h_i, Rect12x26, 1, 2, 3);
fgrid!(cat_filter_h_e, Rect12x26, 1, 5, 6);

/// The same filters must not confuse the axes: width filter with bounds around
/// the HEIGHT of a rectangular symbol keeps it iff its width satisfies them.
#[kani::proof]
#[kani::unwind(9)]
fn cat_filter_axes() {
    let sym = SymbolSize::Rect8x18;
    let a = SymbolList::with_whitelist([sym]).enforce_width_in(8..=8);
    assert!(a.is_empty());
    let b = SymbolList::with_whitelist([sym]).enforce_height_in(8..=8);
    assert!(b.contains(&sym));
    let c = SymbolList::with_whitelist([sym]).enforce_width_in(..18);
    assert!(c.is_empty());
    let d = SymbolList::with_whitelist([sym]).enforce_height_in(9..);
    assert!(d.is_empty());
}

#[kani::proof]
#[kani::unwind(8)]
fn cat_filter_sq() {
    filter_on(SymbolSize::Square12, 2);
    filter_on(SymbolSize::Rect8x32, 2);
}

#[kani::proof]
#[kani::unwind(8)]
fn cat_filter_re() {
    filter_on(SymbolSize::Square12, 3);
    filter_on(SymbolSize::Rect8x32, 3);
}

/// first_symbol_big_enough_for / max_capacity / upper_limit_for_number_of_codewords
/// on a concrete list with a symbolic need: the first symbol (in Ord) that is
/// large enough; None only if none is; the upper limit is None iff the list is empty.
fn first_on<const N: usize>(l: [SymbolSize; N]) {
    let need: usize = kani::any();
    kani::assume(need <= 3200);
    let list = SymbolList::with_whitelist(l);
    let got = list.first_symbol_big_enough_for(need);
    // oracle: minimum in (capacity, diagonal) order among the members with capacity >= need
    let mut best: Option<SymbolSize> = None;
    let mut q = 0;
    while q < N {
        let s = l[q];
        if s.num_data_codewords() >= need {
            best = match best {
                None => Some(s),
                Some(b) => {
                    let (kb, ks) = (b.block_setup(), s.block_setup());
                    let db = kb.width * kb.width + kb.height * kb.height;
                    let ds = ks.width * ks.width + ks.height * ks.height;
                    if (s.num_data_codewords(), ds) < (b.num_data_codewords(), db) { Some(s) } else { Some(b) }
                }
            };
        }
        q += 1;
    }
    assert!(got == best);
    let lim = list.upper_limit_for_number_of_codewords(need);
    assert!(lim.is_none() == (N == 0));
    assert!(list.is_empty() == (N == 0));
    let mut maxcap = 0;
    q = 0;
    while q < N {
        if 2 * l[q].num_data_codewords() > maxcap {
            maxcap = 2 * l[q].num_data_codewords();
        }
        q += 1;
    }
    assert!(list.max_capacity() == maxcap);
    kani::cover!(N == 0 || got.is_none());
}

#[kani::proof]
#[kani::unwind(8)]
fn cat_first_0() {
    first_on::<0>([]);
}

#[kani::proof]
#[kani::unwind(8)]
fn cat_first_1() {
    first_on::<1>([SymbolSize::Square14]);
}

#[kani::proof]
#[kani::unwind(8)]
fn cat_first_2() {
    first_on::<2>([SymbolSize::Square144, SymbolSize::Square10]);
}

#[kani::proof]
#[kani::unwind(8)]
fn cat_first_3() {
    first_on::<3>([SymbolSize::Square12, SymbolSize::Rect8x18, SymbolSize::Square10]);
}

// ---------------------------------------------------------------------------
// Stubs used by the try_from_bits harnesses (placement::verif_place): the
// symbol list is narrowed to ONE size X and the attribute look-ups of the size
// read back out of the B-tree are replaced by X's constants (sound because pixel
// dimensions identify a size: cat_ord; the constants are checked against the
// real block_setup() by stub_consts_ok below).

macro_rules! size_stubs {
    ($all:ident, $bs:ident, $pad:ident, $size:ident, $w:expr, $h:expr, $ev:expr, $eh:expr, $blocks:expr, $ecc:expr, $padding:expr) => {
        pub(crate) fn $all() -> SymbolList {
            SymbolList::with_whitelist([SymbolSize::$size])
        }
        pub(crate) fn $bs(_s: SymbolSize) -> BlockSetup {
            BlockSetup {
                num_ecc_blocks: $blocks,
                num_ecc_per_block: $ecc,
                width: $w,
                height: $h,
                extra_vertical_alignments: $ev,
                extra_horizontal_alignments: $eh,
            }
        }
        pub(crate) fn $pad(_s: SymbolSize) -> bool {
            $padding
        }
    };
}
size_stubs!(all_sq10, bs_sq10, pad_sq10, Square10, 10, 10, 0, 0, 1, 5, false);
size_stubs!(all_sq12, bs_sq12, pad_sq12, Square12, 12, 12, 0, 0, 1, 7, true);
size_stubs!(all_r8x18, bs_r8x18, pad_r8x18, Rect8x18, 18, 8, 0, 0, 1, 7, false);
size_stubs!(all_r8x32, bs_r8x32, pad_r8x32, Rect8x32, 32, 8, 1, 0, 1, 11, false);
size_stubs!(all_sq32, bs_sq32, pad_sq32, Square32, 32, 32, 1, 1, 1, 36, false);

pub(crate) fn all_two_smallest() -> SymbolList {
    SymbolList::with_whitelist([SymbolSize::Square10, SymbolSize::Rect8x18])
}

fn same_bs(a: BlockSetup, b: BlockSetup) -> bool {
    a.num_ecc_blocks == b.num_ecc_blocks && a.num_ecc_per_block == b.num_ecc_per_block && a.width == b.width && a.height == b.height
        && a.extra_vertical_alignments == b.extra_vertical_alignments && a.extra_horizontal_alignments == b.extra_horizontal_alignments
}

/// The stub constants are the real attributes; every size has >= 100 modules.
#[kani::proof]
fn stub_consts_ok() {
    assert!(same_bs(SymbolSize::Square10.block_setup(), bs_sq10(SymbolSize::Square10)) && SymbolSize::Square10.has_padding_modules() == pad_sq10(SymbolSize::Square10));
    assert!(same_bs(SymbolSize::Square12.block_setup(), bs_sq12(SymbolSize::Square12)) && SymbolSize::Square12.has_padding_modules() == pad_sq12(SymbolSize::Square12));
    assert!(same_bs(SymbolSize::Rect8x18.block_setup(), bs_r8x18(SymbolSize::Rect8x18)) && SymbolSize::Rect8x18.has_padding_modules() == pad_r8x18(SymbolSize::Rect8x18));
    assert!(same_bs(SymbolSize::Rect8x32.block_setup(), bs_r8x32(SymbolSize::Rect8x32)) && SymbolSize::Rect8x32.has_padding_modules() == pad_r8x32(SymbolSize::Rect8x32));
    assert!(same_bs(SymbolSize::Square32.block_setup(), bs_sq32(SymbolSize::Square32)) && SymbolSize::Square32.has_padding_modules() == pad_sq32(SymbolSize::Square32));
    let i = any_idx();
    let bs = VARIANTS[i].block_setup();
    assert!(bs.width * bs.height >= 100 && bs.width >= 10 && bs.height >= 8);
}
