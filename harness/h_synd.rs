//! Harnesses that are children of `crate::errorcode::decoding::syndrome_based`
//! (decode_gen, Levinson-Durbin locator search, Björck-Pereyra).
#![allow(dead_code, unused_imports, unused_variables)]
use super::*;
use crate::verif_ref::gf as rgf;
use alloc::{vec, vec::Vec};

/// Real Levinson-Durbin behind a normalising front: `syn` has exactly Z leading
/// zero syndromes (other vectors are outside this query: assume(false)); the
/// vector handed to the real function is [0 x Z literal, 1 literal, syn[Z+1]/c, ...]
/// with c = syn[Z].  The Hankel solution is invariant under scaling all
/// syndromes by c != 0 (ld_scale checks that for three factors); making the
/// start rank a constant is what lets CBMC execute the Vec resizing inside.
fn ld_norm<const Z: usize>(syn: &[GF]) -> Result<Vec<GF>, ErrorDecodingError> {
    let k = syn.len();
    let mut z = 0;
    let mut i = 0;
    let mut done = false;
    while i < 8 {
        if i < k && !done {
            if syn[i] == GF(0) {
                z += 1;
            } else {
                done = true;
            }
        }
        i += 1;
    }
    kani::assume(z == Z);
    let mut lit: Vec<GF> = Vec::with_capacity(8);
    if Z >= k {
        // all zero: decode_gen never calls the locator search then
        kani::assume(false);
    }
    let c = syn[Z];
    i = 0;
    while i < 8 {
        if i < k {
            if i < Z {
                lit.push(GF(0));
            } else if i == Z {
                lit.push(GF(1));
            } else {
                lit.push(syn[i] / c);
            }
        }
        i += 1;
    }
    find_inv_error_locations_levinson_durbin(&lit)
}

/// Contract of the locator search, as decode_gen relies on it: Ok(w ++ [1]) with
/// v = len(w) in 1..=t and sum_{i<v} S[j+i] w[i] = S[j+v] for j < t.
fn ld_contract_holds(syn: &[GF], lam: &[GF], t: usize) -> bool {
    let v = lam.len() - 1;
    if v < 1 || v > t || lam[v] != GF(1) {
        return false;
    }
    let mut ok = true;
    let mut j = 0;
    while j < 4 {
        if j < t && j + v < syn.len() {
            let mut acc = GF(0);
            let mut i = 0;
            while i < 4 {
                if i < v {
                    acc = acc + syn[j + i] * lam[i];
                }
                i += 1;
            }
            if acc != syn[j + v] {
                ok = false;
            }
        }
        j += 1;
    }
    ok
}

/// Levinson-Durbin alone on a syndrome vector of length K with Z literal
/// leading zeros and first non-zero syndrome C: never panics; Ok(w) satisfies the
/// contract (rows 0..t-1 of the Hankel system).
fn ld_direct<const K: usize, const Z: usize>(c: u8, contract: bool) {
    let s: [u8; K] = kani::any();
    let mut syn: Vec<GF> = Vec::with_capacity(8);
    let mut i = 0;
    while i < K {
        if i < Z {
            syn.push(GF(0));
        } else if i == Z {
            syn.push(GF(c));
        } else {
            syn.push(GF(s[i]));
        }
        i += 1;
    }
    let t = K / 2;
    let mut full_rank = false;
    match find_inv_error_locations_levinson_durbin(&syn) {
        Ok(lam) => {
            assert!(lam.len() >= 2 && lam.len() <= t + 1);
            if contract {
                assert!(ld_contract_holds(&syn, &lam, t));
            }
            assert!(lam[lam.len() - 1] == GF(1));
            full_rank = lam.len() == t + 1;
        }
        Err(_) => {
            // only when the first t syndromes vanish
            assert!(Z >= t);
        }
    }
    kani::cover!(full_rank || Z >= t);
}

macro_rules! ld {
    ($name:ident, $unwind:expr, $k:expr, $z:expr, $c:expr, $contract:expr) => {
        #[kani::proof]
        #[kani::unwind($unwind)]
        fn $name() {
            ld_direct::<$k, $z>($c, $contract);
        }
    };
}
// safety only (no panic, shape of the result), every leading-zero count
ld!(ld_np_k2_z0, 6, 2, 0, 1, false);
ld!(ld_np_k2_z1, 6, 2, 1, 1, false);
ld!(ld_np_k3_z0, 6, 3, 0, 1, false);
ld!(ld_np_k3_z1, 6, 3, 1, 2, false);
ld!(ld_np_k3_z2, 6, 3, 2, 1, false);
ld!(ld_np_k4_z0, 7, 4, 0, 1, false);
ld!(ld_np_k4_z1, 7, 4, 1, 1, false);
ld!(ld_np_k4_z2, 7, 4, 2, 0x80, false);
ld!(ld_np_k4_z3, 7, 4, 3, 1, false);
ld!(ld_np_k5_z0, 7, 5, 0, 1, false);
ld!(ld_np_k5_z0_ff, 7, 5, 0, 0xFF, false);
ld!(ld_np_k5_z1, 7, 5, 1, 1, false);
ld!(ld_np_k5_z2, 7, 5, 2, 1, false);
ld!(ld_np_k5_z3, 7, 5, 3, 1, false);
ld!(ld_np_k5_z4, 7, 5, 4, 1, false);
ld!(ld_np_k6_z0, 8, 6, 0, 1, false);
ld!(ld_np_k6_z1, 8, 6, 1, 1, false);
ld!(ld_np_k6_z2, 8, 6, 2, 1, false);
ld!(ld_np_k7_z0, 9, 7, 0, 1, false);
ld!(ld_np_k7_z1, 9, 7, 1, 1, false);
ld!(ld_np_k7_z2, 9, 7, 2, 1, false);
ld!(ld_np_k7_z3, 9, 7, 3, 1, false);
// contract (rows 0..t-1 of the Hankel system hold for the returned locator)
ld!(ld_ct_k2_z0, 6, 2, 0, 1, true);
ld!(ld_ct_k3_z0, 6, 3, 0, 1, true);
ld!(ld_ct_k4_z0, 7, 4, 0, 1, true);
ld!(ld_ct_k4_z1, 7, 4, 1, 1, true);
ld!(ld_ct_k5_z0, 7, 5, 0, 1, true);
ld!(ld_ct_k5_z1, 7, 5, 1, 1, true);
ld!(ld_ct_k6_z0, 8, 6, 0, 1, true);
ld!(ld_ct_k6_z1, 8, 6, 1, 1, true);
ld!(ld_ct_k6_z2, 8, 6, 2, 1, true);
ld!(ld_ct_k7_z2, 9, 7, 2, 1, true);

/// Scaling all syndromes by c leaves the locator unchanged (c = 2, 0x80, 0xFF; K = 4).
#[kani::proof]
#[kani::unwind(7)]
fn ld_scale() {
    let s: [u8; 3] = kani::any();
    let which: u8 = kani::any();
    let a = find_inv_error_locations_levinson_durbin(&[GF(1), GF(s[0]), GF(s[1]), GF(s[2])]);
    let b2 = find_inv_error_locations_levinson_durbin(&[GF(2), GF(2) * GF(s[0]), GF(2) * GF(s[1]), GF(2) * GF(s[2])]);
    let b80 = find_inv_error_locations_levinson_durbin(&[GF(0x80), GF(0x80) * GF(s[0]), GF(0x80) * GF(s[1]), GF(0x80) * GF(s[2])]);
    let bff = find_inv_error_locations_levinson_durbin(&[GF(0xFF), GF(0xFF) * GF(s[0]), GF(0xFF) * GF(s[1]), GF(0xFF) * GF(s[2])]);
    match (a, b2, b80, bff) {
        (Ok(a), Ok(b), Ok(c), Ok(d)) => {
            assert!(a.len() == b.len() && a.len() == c.len() && a.len() == d.len());
            assert!(a[0] == b[0] && a[0] == c[0] && a[0] == d[0]);
            assert!(a.len() < 3 || (a[1] == b[1] && a[1] == c[1] && a[1] == d[1]));
        }
        _ => assert!(false),
    }
}

/// Björck-Pereyra: for E distinct non-zero inverse locators and arbitrary
/// syndromes generated by values Y: recovers Y (sum_l Y_l X_l^j = S_j, j = 1..E).
fn bp<const E: usize>() {
    let xs: [u8; E] = kani::any();
    let ys: [u8; E] = kani::any();
    let mut i = 0;
    while i < E {
        kani::assume(xs[i] != 0);
        let mut j = 0;
        while j < i {
            kani::assume(xs[i] != xs[j]);
            j += 1;
        }
        i += 1;
    }
    // syndromes S_j = sum Y_l X_l^j, j = 1..=E (table arithmetic of the crate, which
    // gf_mul / gf_div tie to the field; mixing in shift-xor arithmetic makes the query
    // intractable beyond two symbolic bytes)
    let mut syn = [GF(0); 3];
    let mut j = 0;
    while j < E {
        let mut acc = GF(0);
        let mut l = 0;
        while l < E {
            let mut p = GF(ys[l]);
            let mut q = 0;
            while q <= j {
                p = p * GF(xs[l]);
                q += 1;
            }
            acc = acc + p;
            l += 1;
        }
        syn[j] = acc;
        j += 1;
    }
    // the function takes the INVERSE locators (roots of lambda) and inverts them itself
    let mut inv = [GF(0); 3];
    i = 0;
    while i < E {
        inv[i] = GF(1) / GF(xs[i]);
        i += 1;
    }
    find_error_values_bp(&mut inv[..E], &[], &mut syn[..E]);
    i = 0;
    while i < E {
        assert!(syn[i].0 == ys[i]);
        assert!(inv[i].0 == xs[i]);
        i += 1;
    }
}

#[kani::proof]
#[kani::unwind(5)]
fn bp_1() {
    bp::<1>();
}

#[kani::proof]
#[kani::unwind(5)]
fn bp_2() {
    bp::<2>();
}

#[kani::proof]
#[kani::unwind(6)]
fn bp_3() {
    bp::<3>();
}

// ---------------------------------------------------------------------------
// decode_gen on scaled-down interleaved codes.
// Layout: stride 2 (two interleaved blocks), 3 data codewords (block 0 owns
// data[0], data[2]; block 1 owns data[1] -> unequal blocks as in 144x144),
// K error codewords per block (error[b], error[b+2], ...).

const ND: usize = 3;

fn is_codeword_block<const K: usize>(data: &[u8; ND], error: &[u8; 6], block: usize) -> bool {
    // all K syndromes of the de-interleaved block vanish (crate's evaluation, tied to Horner by synd_eval)
    let mut syn = [GF(0); K];
    let rec = data[block..].iter().copied().step_by(2).chain(error[block..2 * K].iter().copied().step_by(2));
    !super::super::primitive_element_evaluation(rec, &mut syn)
}

/// C03 on the toy code: zero codeword (valid for every linear code) + one
/// error (t = K/2 = 1) at a symbolic position of block B with a symbolic
/// non-zero value; arbitrary garbage in the other block.  Ok, block restored,
/// other block untouched.
fn cap_gen<const K: usize, const B: usize>() {
    let mut data: [u8; ND] = kani::any();
    let mut error: [u8; 6] = kani::any();
    // zero codeword in block B, the other block keeps its symbolic garbage
    data[B] = 0;
    if B == 0 {
        data[2] = 0;
    }
    error[B] = 0;
    error[B + 2] = 0;
    if K == 3 {
        error[B + 4] = 0;
    }
    let data0 = data;
    let error0 = error;
    let n_data = if B == 0 { 2 } else { 1 };
    let n = n_data + K;
    let pos: usize = kani::any();
    let val: u8 = kani::any();
    kani::assume(pos < n && val != 0);
    if pos < n_data {
        data[B + 2 * pos] ^= val;
    } else {
        error[B + 2 * (pos - n_data)] ^= val;
    }
    let r = decode_gen(&mut data[B..], &mut error[B..2 * K], 2, K, ld_norm::<0>, find_error_values_bp);
    assert!(r.is_ok());
    assert!(data[0] == data0[0] && data[1] == data0[1] && data[2] == data0[2]);
    assert!(error[0] == error0[0] && error[1] == error0[1] && error[2] == error0[2]);
    assert!(error[3] == error0[3] && error[4] == error0[4] && error[5] == error0[5]);
    kani::cover!(pos >= n_data);
    kani::cover!(pos == n_data - 1);
}

macro_rules! capgen {
    ($name:ident, $k:expr, $b:expr) => {
        #[kani::proof]
        #[kani::unwind(9)]
        fn $name() {
            cap_gen::<$k, $b>();
        }
    };
}
capgen!(cap_gen_k2_b0, 2, 0);
capgen!(cap_gen_k2_b1, 2, 1);
capgen!(cap_gen_k3_b0, 3, 0);
capgen!(cap_gen_k3_b1, 3, 1);

/// C09 / C05 on the toy code: EVERY byte of the received word symbolic (also
/// the other block's); real Levinson-Durbin via ld_norm::<Z>.  No panic; Ok
/// implies the block left behind is a codeword, and the other block is untouched.
fn ok_gen<const K: usize, const Z: usize, const B: usize>() {
    let mut data: [u8; ND] = kani::any();
    let mut error: [u8; 6] = kani::any();
    let data0 = data;
    let error0 = error;
    let r = decode_gen(&mut data[B..], &mut error[B..2 * K], 2, K, ld_norm::<Z>, find_error_values_bp);
    let o = 1 - B;
    assert!(data[o] == data0[o] && (o == 1 || data[2] == data0[2]));
    assert!(error[o] == error0[o] && error[o + 2] == error0[o + 2] && error[o + 4] == error0[o + 4]);
    if r.is_ok() {
        assert!(is_codeword_block::<K>(&data, &error, B));
    }
    kani::cover!(r.is_ok() && data[B] != data0[B]);
}

macro_rules! okgen {
    ($name:ident, $k:expr, $z:expr, $b:expr) => {
        #[kani::proof]
        #[kani::unwind(9)]
        fn $name() {
            ok_gen::<$k, $z, $b>();
        }
    };
}
okgen!(ok_gen_k2_z0_b0, 2, 0, 0);
okgen!(ok_gen_k2_z1_b1, 2, 1, 1);
okgen!(ok_gen_k3_z0_b0, 3, 0, 0);
okgen!(ok_gen_k3_z0_b1, 3, 0, 1);
okgen!(ok_gen_k3_z1_b0, 3, 1, 0);
okgen!(ok_gen_k3_z2_b1, 3, 2, 1);

/// C09 prover bound on the toy code: zero codeword + TWO errors (one more than
/// the correction capacity t = 1) at symbolic positions with symbolic values in
/// block B, garbage in the other block: Ok implies codeword.
fn ok_w2<const K: usize, const Z: usize, const B: usize>() {
    let mut data: [u8; ND] = kani::any();
    let mut error: [u8; 6] = kani::any();
    data[B] = 0;
    if B == 0 {
        data[2] = 0;
    }
    error[B] = 0;
    error[B + 2] = 0;
    if K == 3 {
        error[B + 4] = 0;
    }
    let n_data = if B == 0 { 2 } else { 1 };
    let n = n_data + K;
    let p1: usize = kani::any();
    let p2: usize = kani::any();
    let v1: u8 = kani::any();
    let v2: u8 = kani::any();
    kani::assume(p1 < p2 && p2 < n && v1 != 0);
    if p1 < n_data { data[B + 2 * p1] ^= v1; } else { error[B + 2 * (p1 - n_data)] ^= v1; }
    if p2 < n_data { data[B + 2 * p2] ^= v2; } else { error[B + 2 * (p2 - n_data)] ^= v2; }
    let r = decode_gen(&mut data[B..], &mut error[B..2 * K], 2, K, ld_norm::<Z>, find_error_values_bp);
    if r.is_ok() {
        assert!(is_codeword_block::<K>(&data, &error, B));
    }
    kani::cover!(r.is_ok() || Z >= 1);
    kani::cover!(r.is_err());
}

macro_rules! okw2 {
    ($name:ident, $k:expr, $z:expr, $b:expr) => {
        #[kani::proof]
        #[kani::unwind(9)]
        fn $name() {
            ok_w2::<$k, $z, $b>();
        }
    };
}
okw2!(ok_w2_k2_z0_b0, 2, 0, 0);
okw2!(ok_w2_k3_z0_b0, 3, 0, 0);
okw2!(ok_w2_k3_z0_b1, 3, 0, 1);
okw2!(ok_w2_k3_z1_b0, 3, 1, 0);
okw2!(ok_w2_k3_z2_b1, 3, 2, 1);

/// decode_gen with the locator search replaced by its CONTRACT (any w with
/// v <= t solving rows 0..t-1): whatever Levinson-Durbin returns within its
/// contract, Ok implies codeword and nothing panics.  Independent of the
/// scaling argument.
fn ok_contract<const K: usize, const B: usize>() {
    let mut data: [u8; ND] = kani::any();
    let mut error: [u8; 6] = kani::any();
    let w: u8 = kani::any();
    let ldc = |syn: &[GF]| -> Result<Vec<GF>, ErrorDecodingError> {
        let mut lam: Vec<GF> = Vec::with_capacity(4);
        lam.push(GF(w));
        lam.push(GF(1));
        kani::assume(ld_contract_holds(syn, &lam, K / 2));
        Ok(lam)
    };
    let r = decode_gen(&mut data[B..], &mut error[B..2 * K], 2, K, ldc, find_error_values_bp);
    if r.is_ok() {
        assert!(is_codeword_block::<K>(&data, &error, B));
    }
}

#[kani::proof]
#[kani::unwind(9)]
fn ok_contract_k2() {
    ok_contract::<2, 0>();
}

#[kani::proof]
#[kani::unwind(9)]
fn ok_contract_k3() {
    ok_contract::<3, 1>();
}

/// No syndrome non-zero => Ok without touching anything (C01.d identity).
#[kani::proof]
#[kani::unwind(9)]
fn gen_identity() {
    let mut data: [u8; ND] = kani::any();
    let mut error: [u8; 6] = kani::any();
    let data0 = data;
    let error0 = error;
    kani::assume(is_codeword_block::<3>(&data, &error, 0));
    let never = |_: &[GF]| -> Result<Vec<GF>, ErrorDecodingError> {
        assert!(false);
        Err(ErrorDecodingError::Malfunction)
    };
    let r = decode_gen(&mut data[0..], &mut error[0..6], 2, 3, never, find_error_values_bp);
    assert!(r.is_ok());
    assert!(data == data0 && error == error0);
}



// ---------------------------------------------------------------------------
// decode() as glue around decode_gen: with decode_gen replaced by a recording
// stub, the per-block slices, stride and err_len handed down are checked for
// every symbol size (the real decode_gen: cap_gen_*, ok_*).

static mut GLUE_CALLS: usize = 0;
static mut GLUE_OK: bool = true;
static mut GLUE_NDATA: usize = 0;
static mut GLUE_NERR: usize = 0;
static mut GLUE_STRIDE: usize = 0;
static mut GLUE_K: usize = 0;

fn stub_decode_gen<F, G>(data: &mut [u8], error: &mut [u8], stride: usize, err_len: usize, _f: F, _g: G) -> Result<(), ErrorDecodingError>
where
    F: Fn(&[GF]) -> Result<Vec<GF>, ErrorDecodingError>,
    G: Fn(&mut [GF], &[GF], &mut [GF]),
{
    unsafe {
        let b = GLUE_CALLS;
        // block b must be handed data[b..] and error[b..] of the full vectors, with the marker bytes in front
        if data.len() != GLUE_NDATA - b || error.len() != GLUE_NERR - b || stride != GLUE_STRIDE || err_len != GLUE_K {
            GLUE_OK = false;
        }
        if data[0] != (b as u8) + 1 || error[0] != (b as u8) + 101 {
            GLUE_OK = false;
        }
        GLUE_CALLS += 1;
    }
    Ok(())
}

#[kani::proof]
#[kani::unwind(12)]
#[kani::stub(decode_gen, stub_decode_gen)]
fn dec_glue() {
    use crate::symbol_size::verif_sym::VARIANTS;
    use crate::verif_ref::tables::TABLE;
    let i: usize = kani::any();
    kani::assume(i < 48);
    let t = TABLE[i];
    let size = VARIANTS[i];
    let mut cw = [0u8; 2178];
    // markers: first data codeword of block b is b+1, first error codeword of block b is b+101
    let mut b = 0;
    while b < 10 {
        if b < t.blocks {
            cw[b] = (b as u8) + 1;
            cw[t.data + b] = (b as u8) + 101;
        }
        b += 1;
    }
    unsafe {
        GLUE_CALLS = 0;
        GLUE_OK = true;
        GLUE_NDATA = t.data;
        GLUE_NERR = t.ecc;
        GLUE_STRIDE = t.blocks;
        GLUE_K = t.ecc / t.blocks;
    }
    let r = decode(&mut cw[..t.data + t.ecc], size);
    assert!(r.is_ok());
    unsafe {
        assert!(GLUE_CALLS == t.blocks);
        assert!(GLUE_OK);
    }
    kani::cover!(t.blocks == 10);
}
