//! ISO/IEC 16022 Annex F placement ("ECC 200 symbol character placement"),
//! with the additional row wrap of ISO/IEC 21471 (DMRE), transcribed from the
//! standards' C program.  `arr[row*ncol+col] = 8*chr + bit` with chr 1-based and
//! bit 0 = most significant ... 7 = least significant; 0 = untouched;
//! FIXED = module of the fixed corner pattern that is dark, FIXED_LIGHT stays 0.

pub const FIXED: u16 = 0xFFFF;

pub struct Placer<const N: usize> {
    pub nrow: isize,
    pub ncol: isize,
    pub arr: [u16; N],
    pub nchr: usize,
    /// a module was assigned twice
    pub clash: bool,
}

impl<const N: usize> Placer<N> {
    pub fn module_index(&self, mut row: isize, mut col: isize) -> usize {
        if row < 0 {
            row += self.nrow;
            col += 4 - ((self.nrow + 4) % 8);
        }
        if col < 0 {
            col += self.ncol;
            row += 4 - ((self.ncol + 4) % 8);
        }
        if row >= self.nrow {
            row -= self.nrow;
        }
        (row * self.ncol + col) as usize
    }

    fn module(&mut self, row: isize, col: isize, chr: usize, bit: usize) {
        let i = self.module_index(row, col);
        if self.arr[i] != 0 {
            self.clash = true;
        }
        self.arr[i] = (8 * chr + bit) as u16;
    }

    fn utah(&mut self, row: isize, col: isize, chr: usize) {
        self.module(row - 2, col - 2, chr, 0);
        self.module(row - 2, col - 1, chr, 1);
        self.module(row - 1, col - 2, chr, 2);
        self.module(row - 1, col - 1, chr, 3);
        self.module(row - 1, col, chr, 4);
        self.module(row, col - 2, chr, 5);
        self.module(row, col - 1, chr, 6);
        self.module(row, col, chr, 7);
    }

    fn corner1(&mut self, chr: usize) {
        let (nrow, ncol) = (self.nrow, self.ncol);
        self.module(nrow - 1, 0, chr, 0);
        self.module(nrow - 1, 1, chr, 1);
        self.module(nrow - 1, 2, chr, 2);
        self.module(0, ncol - 2, chr, 3);
        self.module(0, ncol - 1, chr, 4);
        self.module(1, ncol - 1, chr, 5);
        self.module(2, ncol - 1, chr, 6);
        self.module(3, ncol - 1, chr, 7);
    }

    fn corner2(&mut self, chr: usize) {
        let (nrow, ncol) = (self.nrow, self.ncol);
        self.module(nrow - 3, 0, chr, 0);
        self.module(nrow - 2, 0, chr, 1);
        self.module(nrow - 1, 0, chr, 2);
        self.module(0, ncol - 4, chr, 3);
        self.module(0, ncol - 3, chr, 4);
        self.module(0, ncol - 2, chr, 5);
        self.module(0, ncol - 1, chr, 6);
        self.module(1, ncol - 1, chr, 7);
    }

    fn corner3(&mut self, chr: usize) {
        let (nrow, ncol) = (self.nrow, self.ncol);
        self.module(nrow - 3, 0, chr, 0);
        self.module(nrow - 2, 0, chr, 1);
        self.module(nrow - 1, 0, chr, 2);
        self.module(0, ncol - 2, chr, 3);
        self.module(0, ncol - 1, chr, 4);
        self.module(1, ncol - 1, chr, 5);
        self.module(2, ncol - 1, chr, 6);
        self.module(3, ncol - 1, chr, 7);
    }

    fn corner4(&mut self, chr: usize) {
        let (nrow, ncol) = (self.nrow, self.ncol);
        self.module(nrow - 1, 0, chr, 0);
        self.module(nrow - 1, ncol - 1, chr, 1);
        self.module(0, ncol - 3, chr, 2);
        self.module(0, ncol - 2, chr, 3);
        self.module(0, ncol - 1, chr, 4);
        self.module(1, ncol - 3, chr, 5);
        self.module(1, ncol - 2, chr, 6);
        self.module(1, ncol - 1, chr, 7);
    }

    pub fn new(nrow: usize, ncol: usize) -> Self {
        Placer { nrow: nrow as isize, ncol: ncol as isize, arr: [0; N], nchr: 0, clash: false }
    }

    /// The ECC200 placement loop of Annex F.
    pub fn ecc200(&mut self) {
        let (nrow, ncol) = (self.nrow, self.ncol);
        let mut chr = 1;
        let mut row: isize = 4;
        let mut col: isize = 0;
        loop {
            if row == nrow && col == 0 {
                self.corner1(chr);
                chr += 1;
            }
            if row == nrow - 2 && col == 0 && ncol % 4 != 0 {
                self.corner2(chr);
                chr += 1;
            }
            if row == nrow - 2 && col == 0 && ncol % 8 == 4 {
                self.corner3(chr);
                chr += 1;
            }
            if row == nrow + 4 && col == 2 && ncol % 8 == 0 {
                self.corner4(chr);
                chr += 1;
            }
            loop {
                if row < nrow && col >= 0 && self.arr[(row * ncol + col) as usize] == 0 {
                    self.utah(row, col, chr);
                    chr += 1;
                }
                row -= 2;
                col += 2;
                if !(row >= 0 && col < ncol) {
                    break;
                }
            }
            row += 1;
            col += 3;
            loop {
                if row >= 0 && col < ncol && self.arr[(row * ncol + col) as usize] == 0 {
                    self.utah(row, col, chr);
                    chr += 1;
                }
                row += 2;
                col -= 2;
                if !(row < nrow && col >= 0) {
                    break;
                }
            }
            row += 3;
            col += 1;
            if !(row < nrow || col < ncol) {
                break;
            }
        }
        self.nchr = chr - 1;
        // fixed pattern in the lower right corner if it was left untouched
        let last = (nrow * ncol - 1) as usize;
        if self.arr[last] == 0 {
            self.arr[last] = FIXED;
            self.arr[last - ncol as usize - 1] = FIXED;
        }
    }
}

/// Finder / clock / alignment value of module (r, c) of a rows x cols symbol with
/// reg_v x reg_h data regions, or the index into the mapping matrix for data modules.
#[derive(Clone, Copy, PartialEq, Eq)]
pub enum Module {
    Dark,
    Light,
    Data(usize),
}

pub fn module_kind(rows: usize, cols: usize, reg_v: usize, reg_h: usize, r: usize, c: usize) -> Module {
    let rh = rows / reg_v - 2; // data region height
    let rw = cols / reg_h - 2; // data region width
    let rr = r % (rh + 2);
    let cc = c % (rw + 2);
    if cc == 0 || rr == rh + 1 {
        // solid left column / solid bottom row of each region
        Module::Dark
    } else if rr == 0 {
        // clock track on top: dark, light, dark, ... from the left
        if c % 2 == 0 { Module::Dark } else { Module::Light }
    } else if cc == rw + 1 {
        // clock track on the right: light at the top, alternating downwards
        if r % 2 == 1 { Module::Dark } else { Module::Light }
    } else {
        let mr = (r / (rh + 2)) * rh + rr - 1;
        let mc = (c / (rw + 2)) * rw + cc - 1;
        Module::Data(mr * (rw * reg_h) + mc)
    }
}
