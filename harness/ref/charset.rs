//! Character set rules written from the standards' tables (ISO-8859-1, -9, -11)
//! as ranges and exceptions, and a UTF-8 well-formedness check (Unicode 15, table 3-7).

/// Printable ISO-8859-1 byte -> code point; controls (C0, DEL, C1) are not printable.
pub fn latin1(b: u8) -> Option<u32> {
    if (b >= 0x20 && b <= 0x7E) || b >= 0xA0 {
        Some(b as u32)
    } else {
        None
    }
}

/// ISO-8859-9 (Latin-5, Turkish): ISO-8859-1 with six letters replaced.
pub fn iso8859_9(b: u8) -> Option<u32> {
    match b {
        0xD0 => Some(0x011E),
        0xDD => Some(0x0130),
        0xDE => Some(0x015E),
        0xF0 => Some(0x011F),
        0xFD => Some(0x0131),
        0xFE => Some(0x015F),
        _ => latin1(b),
    }
}

/// ISO-8859-11 (Thai): ASCII, NBSP, U+0E01..U+0E3A at 0xA1..0xDA, U+0E3F..U+0E5B at 0xDF..0xFB;
/// 0xDB..0xDE and 0xFC..0xFF are undefined.
pub fn iso8859_11(b: u8) -> Option<u32> {
    if b >= 0x20 && b <= 0x7E {
        Some(b as u32)
    } else if b == 0xA0 {
        Some(0xA0)
    } else if b >= 0xA1 && b <= 0xDA {
        Some(0x0E01 + (b - 0xA1) as u32)
    } else if b >= 0xDF && b <= 0xFB {
        Some(0x0E3F + (b - 0xDF) as u32)
    } else {
        None
    }
}

/// Length of the well-formed UTF-8 sequence starting at s[i] (within n), or 0.
pub fn utf8_seq(s: &[u8], n: usize, i: usize) -> usize {
    let b0 = s[i];
    let cont = |k: usize, lo: u8, hi: u8| -> bool { i + k < n && s[i + k] >= lo && s[i + k] <= hi };
    if b0 < 0x80 {
        1
    } else if b0 >= 0xC2 && b0 <= 0xDF {
        if cont(1, 0x80, 0xBF) { 2 } else { 0 }
    } else if b0 == 0xE0 {
        if cont(1, 0xA0, 0xBF) && cont(2, 0x80, 0xBF) { 3 } else { 0 }
    } else if (b0 >= 0xE1 && b0 <= 0xEC) || b0 == 0xEE || b0 == 0xEF {
        if cont(1, 0x80, 0xBF) && cont(2, 0x80, 0xBF) { 3 } else { 0 }
    } else if b0 == 0xED {
        if cont(1, 0x80, 0x9F) && cont(2, 0x80, 0xBF) { 3 } else { 0 }
    } else if b0 == 0xF0 {
        if cont(1, 0x90, 0xBF) && cont(2, 0x80, 0xBF) && cont(3, 0x80, 0xBF) { 4 } else { 0 }
    } else if b0 >= 0xF1 && b0 <= 0xF3 {
        if cont(1, 0x80, 0xBF) && cont(2, 0x80, 0xBF) && cont(3, 0x80, 0xBF) { 4 } else { 0 }
    } else if b0 == 0xF4 {
        if cont(1, 0x80, 0x8F) && cont(2, 0x80, 0xBF) && cont(3, 0x80, 0xBF) { 4 } else { 0 }
    } else {
        0
    }
}

pub fn utf8_valid(s: &[u8], n: usize) -> bool {
    let mut i = 0;
    while i < n {
        let l = utf8_seq(s, n, i);
        if l == 0 {
            return false;
        }
        i += l;
    }
    true
}

/// UTF-8 encoding of a code point (<= 0xFFFF is all the 8-bit tables need).
pub fn utf8_encode(cp: u32, out: &mut [u8; 4]) -> usize {
    if cp < 0x80 {
        out[0] = cp as u8;
        1
    } else if cp < 0x800 {
        out[0] = 0xC0 | (cp >> 6) as u8;
        out[1] = 0x80 | (cp & 63) as u8;
        2
    } else if cp < 0x10000 {
        out[0] = 0xE0 | (cp >> 12) as u8;
        out[1] = 0x80 | ((cp >> 6) & 63) as u8;
        out[2] = 0x80 | (cp & 63) as u8;
        3
    } else {
        out[0] = 0xF0 | (cp >> 18) as u8;
        out[1] = 0x80 | ((cp >> 12) & 63) as u8;
        out[2] = 0x80 | ((cp >> 6) & 63) as u8;
        out[3] = 0x80 | (cp & 63) as u8;
        4
    }
}
