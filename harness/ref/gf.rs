//! GF(256) modulo x^8+x^5+x^3+x^2+1 (0x12D) by shift-and-xor, no tables.
pub fn mul(a: u8, b: u8) -> u8 {
    let mut acc: u16 = 0;
    let mut aa: u16 = a as u16;
    let mut i = 0;
    while i < 8 {
        if (b >> i) & 1 == 1 {
            acc ^= aa;
        }
        aa <<= 1;
        if aa & 0x100 != 0 {
            aa ^= 0x12D;
        }
        i += 1;
    }
    acc as u8
}
