//! GF(256) modulo x^8+x^5+x^3+x^2+1 (0x12D) by shift-and-xor, no tables.
pub fn mul(a: u8, b: u8) -> u8 {
    // eight shift-and-add steps, written out so that no loop bound is involved
    let mut acc: u16 = 0;
    let mut aa: u16 = a as u16;
    macro_rules! step {
        ($i:expr) => {
            if (b >> $i) & 1 == 1 {
                acc ^= aa;
            }
            aa <<= 1;
            if aa & 0x100 != 0 {
                aa ^= 0x12D;
            }
        };
    }
    step!(0);
    step!(1);
    step!(2);
    step!(3);
    step!(4);
    step!(5);
    step!(6);
    step!(7);
    acc as u8
}

/// 2^e in GF(256)
pub fn pow2(e: usize) -> u8 {
    let mut r: u8 = 1;
    let mut i = 0;
    while i < e {
        r = mul(r, 2);
        i += 1;
    }
    r
}

/// Coefficients of prod_{i=1..k} (x + 2^i), highest degree first (g[0] = 1), into g[..=k].
pub fn generator(k: usize, g: &mut [u8; 70]) {
    let mut i = 0;
    while i < 70 {
        g[i] = 0;
        i += 1;
    }
    g[0] = 1;
    let mut deg = 0;
    let mut root: u8 = 1;
    while deg < k {
        root = mul(root, 2);
        // multiply by (x + root): new[j] = old[j] + root * old[j-1]
        let mut j = deg + 1;
        while j >= 1 {
            g[j] ^= mul(root, g[j - 1]);
            j -= 1;
        }
        deg += 1;
    }
}

/// Horner evaluation of c[0] x^(n-1) + ... + c[n-1] at x.
pub fn eval(c: &[u8], n: usize, x: u8) -> u8 {
    let mut acc = 0u8;
    let mut i = 0;
    while i < n {
        acc = mul(acc, x) ^ c[i];
        i += 1;
    }
    acc
}
