//! ISO/IEC 16022 data codeword formats, written from the standard (5.2.x) and
//! independent of the crate: a per-mode reference *decoder* and a per-mode
//! scripted reference *encoder*.  Index based, fixed arrays, no allocation.

pub const NOUT: usize = 24;

#[derive(Clone, Copy)]
pub struct Out {
    pub b: [u8; NOUT],
    pub n: usize,
}

impl Out {
    pub const fn new() -> Self {
        Out { b: [0; NOUT], n: 0 }
    }
    pub fn push(&mut self, x: u8) {
        if self.n < NOUT {
            self.b[self.n] = x;
        }
        self.n += 1;
    }
}

#[derive(Clone, Copy, PartialEq, Eq, Debug)]
pub enum Mode {
    Ascii,
    C40,
    Text,
    X12,
    Edifact,
    Base256,
}

#[derive(Clone, Copy, PartialEq, Eq, Debug)]
pub enum Stop {
    /// end of the codeword stream reached (in ASCII mode or by an implicit end-of-symbol rule)
    End,
    /// a latch to the given mode was read; `next` is the index of the first codeword of the new mode
    Latch(Mode),
    /// PAD codeword read; the rest of the stream has to be (and was) valid padding
    Pad,
    /// the stream is not valid
    Invalid,
    /// a construct the reference does not model (ECI, structured append, ...)
    Unsupported,
}

pub const PAD: u8 = 129;
pub const LATCH_C40: u8 = 230;
pub const LATCH_B256: u8 = 231;
pub const FNC1: u8 = 232;
pub const UPPER_SHIFT: u8 = 235;
pub const LATCH_X12: u8 = 238;
pub const LATCH_TEXT: u8 = 239;
pub const LATCH_EDIFACT: u8 = 240;
pub const UNLATCH: u8 = 254;

/// 253-state randomisation of a pad codeword at 1-based position `pos`.
pub fn pad_253(pos: usize) -> u8 {
    let r = (149 * pos) % 253 + 1;
    let t = 129 + r;
    if t <= 254 {
        t as u8
    } else {
        (t - 254) as u8
    }
}

/// 255-state randomisation of a Base256 codeword `v` at 1-based position `pos`.
pub fn rand_255(v: u8, pos: usize) -> u8 {
    let r = (149 * pos) % 255 + 1;
    let t = v as usize + r;
    if t <= 255 {
        t as u8
    } else {
        (t - 256) as u8
    }
}

pub fn unrand_255(v: u8, pos: usize) -> u8 {
    let r = (149 * pos) % 255 + 1;
    let t = v as isize - r as isize;
    if t >= 0 {
        t as u8
    } else {
        (t + 256) as u8
    }
}

/// Decode ASCII-mode codewords starting at index `i` (0-based) of `cw[..n]`.
/// Returns (stop reason, index after the last codeword consumed).
pub fn dec_ascii(cw: &[u8], n: usize, mut i: usize, base: usize, out: &mut Out) -> (Stop, usize) {
    let mut upper = false;
    while i < n {
        let c = cw[i];
        i += 1;
        if upper {
            if c >= 1 && c <= 128 {
                out.push(c - 1 + 128);
                upper = false;
                continue;
            }
            return (Stop::Invalid, i);
        }
        if c >= 1 && c <= 128 {
            out.push(c - 1);
        } else if c == PAD {
            // all remaining codewords must be 253-state randomised pads
            let mut j = i;
            while j < n {
                if cw[j] != pad_253(base + j + 1) {
                    return (Stop::Invalid, j);
                }
                j += 1;
            }
            return (Stop::Pad, n);
        } else if c >= 130 && c <= 229 {
            let d = c - 130;
            out.push(b'0' + d / 10);
            out.push(b'0' + d % 10);
        } else if c == LATCH_C40 {
            return (Stop::Latch(Mode::C40), i);
        } else if c == LATCH_B256 {
            return (Stop::Latch(Mode::Base256), i);
        } else if c == FNC1 {
            out.push(29);
        } else if c == UPPER_SHIFT {
            upper = true;
        } else if c == LATCH_X12 {
            return (Stop::Latch(Mode::X12), i);
        } else if c == LATCH_TEXT {
            return (Stop::Latch(Mode::Text), i);
        } else if c == LATCH_EDIFACT {
            return (Stop::Latch(Mode::Edifact), i);
        } else if c == 0 || c >= 242 {
            return (Stop::Invalid, i);
        } else {
            // 233, 234, 236, 237, 241
            return (Stop::Unsupported, i);
        }
    }
    if upper {
        return (Stop::Invalid, i);
    }
    (Stop::End, i)
}

/// Table 5/6 of ISO/IEC 16022: the character of a basic-set value (3..=39).
fn c40_basic(v: u8, text: bool) -> u8 {
    if v == 3 {
        b' '
    } else if v <= 13 {
        b'0' + (v - 4)
    } else if text {
        b'a' + (v - 14)
    } else {
        b'A' + (v - 14)
    }
}

/// Shift 2 set: values 0..=26 -> ! " # ... / : ; < = > ? @ [ \ ] ^ _
fn c40_shift2(v: u8) -> u8 {
    if v <= 14 {
        33 + v
    } else if v <= 21 {
        58 + (v - 15)
    } else {
        91 + (v - 22)
    }
}

/// Shift 3 set: C40: ` a..z { | } ~ DEL ; Text: ` A..Z { | } ~ DEL
fn c40_shift3(v: u8, text: bool) -> u8 {
    let ch = 96 + v;
    if text && ch >= b'a' && ch <= b'z' {
        ch - 32
    } else {
        ch
    }
}

/// Decode a C40 (text=false) or Text (text=true) run starting at `i`.
/// Returns (stop, next index).  `Stop::End` = ran to the end of the symbol
/// (possibly leaving one codeword, which is then ASCII: reported through `next`),
/// `Stop::Latch(Ascii)` = explicit unlatch read.
pub fn dec_c40(cw: &[u8], n: usize, mut i: usize, text: bool, out: &mut Out) -> (Stop, usize) {
    let mut shift: u8 = 0; // 0 = basic set, 1..3 = shift set pending
    let mut upper = false;
    while n - i >= 2 {
        if cw[i] == UNLATCH {
            return (Stop::Latch(Mode::Ascii), i + 1);
        }
        let v16 = ((cw[i] as u32) << 8) | cw[i + 1] as u32;
        i += 2;
        if v16 == 0 {
            return (Stop::Invalid, i);
        }
        let v = v16 - 1;
        let vals = [(v / 1600) as u8, ((v / 40) % 40) as u8, (v % 40) as u8];
        if v / 1600 >= 40 {
            return (Stop::Invalid, i);
        }
        let mut k = 0;
        while k < 3 {
            let x = vals[k];
            k += 1;
            let add: u8 = if upper { 128 } else { 0 };
            if shift == 0 {
                if x <= 2 {
                    shift = x + 1;
                } else {
                    out.push(c40_basic(x, text) + add);
                    upper = false;
                }
            } else if shift == 1 {
                if x > 31 {
                    return (Stop::Invalid, i);
                }
                out.push(x + add);
                upper = false;
                shift = 0;
            } else if shift == 2 {
                if x <= 26 {
                    out.push(c40_shift2(x) + add);
                    upper = false;
                } else if x == 27 {
                    return (Stop::Unsupported, i); // FNC1
                } else if x == 30 {
                    upper = true;
                } else {
                    return (Stop::Invalid, i);
                }
                shift = 0;
            } else {
                if x > 31 {
                    return (Stop::Invalid, i);
                }
                out.push(c40_shift3(x, text) + add);
                upper = false;
                shift = 0;
            }
        }
    }
    if n - i == 1 && cw[i] == UNLATCH {
        return (Stop::Latch(Mode::Ascii), i + 1);
    }
    // 0 or 1 codewords left: implicit return to ASCII at the end of the symbol
    (Stop::End, i)
}

fn x12_char(v: u8) -> Option<u8> {
    if v == 0 {
        Some(13)
    } else if v == 1 {
        Some(42)
    } else if v == 2 {
        Some(62)
    } else if v == 3 {
        Some(32)
    } else if v <= 13 {
        Some(b'0' + (v - 4))
    } else if v <= 39 {
        Some(b'A' + (v - 14))
    } else {
        None
    }
}

pub fn dec_x12(cw: &[u8], n: usize, mut i: usize, out: &mut Out) -> (Stop, usize) {
    while n - i >= 2 {
        if cw[i] == UNLATCH {
            return (Stop::Latch(Mode::Ascii), i + 1);
        }
        let v16 = ((cw[i] as u32) << 8) | cw[i + 1] as u32;
        i += 2;
        if v16 == 0 {
            return (Stop::Invalid, i);
        }
        let v = v16 - 1;
        let vals = [(v / 1600) as u8, ((v / 40) % 40) as u8, (v % 40) as u8];
        if v / 1600 >= 40 {
            return (Stop::Invalid, i);
        }
        let mut k = 0;
        while k < 3 {
            match x12_char(vals[k]) {
                Some(c) => out.push(c),
                None => return (Stop::Invalid, i),
            }
            k += 1;
        }
    }
    if n - i == 1 && cw[i] == UNLATCH {
        return (Stop::Latch(Mode::Ascii), i + 1);
    }
    (Stop::End, i)
}

fn edifact_char(v: u8) -> u8 {
    // 6-bit value: 0..=30 -> 64..=94 ('@'..'^'), 32..=63 -> itself
    if v & 0x20 != 0 {
        v
    } else {
        v | 0x40
    }
}

/// Decode an EDIFACT run.  Values are taken 6 bits at a time from the bit
/// stream; value 31 is the unlatch, after which decoding resumes in ASCII at
/// the next codeword boundary.  If at a triple boundary one or two codewords
/// remain in the symbol they are ASCII (no unlatch needed).
pub fn dec_edifact(cw: &[u8], n: usize, mut i: usize, out: &mut Out) -> (Stop, usize) {
    loop {
        let left = n - i;
        if left == 0 {
            return (Stop::End, i);
        }
        if left <= 2 {
            // implicit: rest is ASCII
            return (Stop::End, i);
        }
        // left >= 3: one full triple (4 values)
        let bits = ((cw[i] as u32) << 16) | ((cw[i + 1] as u32) << 8) | cw[i + 2] as u32;
        let v = [
            ((bits >> 18) & 63) as u8,
            ((bits >> 12) & 63) as u8,
            ((bits >> 6) & 63) as u8,
            (bits & 63) as u8,
        ];
        if v[0] == 31 {
            return (Stop::Latch(Mode::Ascii), i + 1);
        }
        out.push(edifact_char(v[0]));
        if v[1] == 31 {
            return (Stop::Latch(Mode::Ascii), i + 2);
        }
        out.push(edifact_char(v[1]));
        if v[2] == 31 {
            return (Stop::Latch(Mode::Ascii), i + 3);
        }
        out.push(edifact_char(v[2]));
        if v[3] == 31 {
            return (Stop::Latch(Mode::Ascii), i + 3);
        }
        out.push(edifact_char(v[3]));
        i += 3;
    }
}

/// Decode a Base256 field starting at `i`.
pub fn dec_b256(cw: &[u8], n: usize, mut i: usize, base: usize, out: &mut Out) -> (Stop, usize) {
    if i >= n {
        return (Stop::Invalid, i);
    }
    let d1 = unrand_255(cw[i], base + i + 1) as usize;
    i += 1;
    let len;
    if d1 == 0 {
        len = n - i;
    } else if d1 < 250 {
        len = d1;
    } else {
        if i >= n {
            return (Stop::Invalid, i);
        }
        let d2 = unrand_255(cw[i], base + i + 1) as usize;
        i += 1;
        len = 250 * (d1 - 249) + d2;
    }
    if len > n - i {
        return (Stop::Invalid, i);
    }
    let mut k = 0;
    while k < len {
        out.push(unrand_255(cw[i], base + i + 1));
        i += 1;
        k += 1;
    }
    (Stop::Latch(Mode::Ascii), i)
}

// ---------------------------------------------------------------------------
// Reference encoders (one mode run each), used to build conformant streams
// for the decoder lemmas (C04).  They write at `cw[*n..]`.

pub fn put(cw: &mut [u8], n: &mut usize, v: u8) {
    if *n < cw.len() {
        cw[*n] = v;
    }
    *n += 1;
}

/// ASCII encodation of one character (no digit pairing): 1 or 2 codewords.
pub fn enc_ascii_char(cw: &mut [u8], n: &mut usize, ch: u8) {
    if ch < 128 {
        put(cw, n, ch + 1);
    } else {
        put(cw, n, UPPER_SHIFT);
        put(cw, n, ch - 128 + 1);
    }
}

/// ASCII digit pair.
pub fn enc_ascii_pair(cw: &mut [u8], n: &mut usize, d1: u8, d2: u8) {
    put(cw, n, 130 + (d1 - b'0') * 10 + (d2 - b'0'));
}

/// C40/Text values of one character; returns the number of values written (1..=4).
pub fn c40_values(ch: u8, text: bool, v: &mut [u8; 4]) -> usize {
    let mut k = 0;
    let mut c = ch;
    if c >= 128 {
        v[0] = 1; // shift 2
        v[1] = 30; // upper shift
        k = 2;
        c -= 128;
    }
    let basic_alpha_lo = if text { b'a' } else { b'A' };
    let other_alpha_lo = if text { b'A' } else { b'a' };
    if c == b' ' {
        v[k] = 3;
        k += 1;
    } else if c >= b'0' && c <= b'9' {
        v[k] = c - b'0' + 4;
        k += 1;
    } else if c >= basic_alpha_lo && c < basic_alpha_lo + 26 {
        v[k] = c - basic_alpha_lo + 14;
        k += 1;
    } else if c < 32 {
        v[k] = 0;
        v[k + 1] = c;
        k += 2;
    } else if c >= 33 && c <= 47 {
        v[k] = 1;
        v[k + 1] = c - 33;
        k += 2;
    } else if c >= 58 && c <= 64 {
        v[k] = 1;
        v[k + 1] = c - 58 + 15;
        k += 2;
    } else if c >= 91 && c <= 95 {
        v[k] = 1;
        v[k + 1] = c - 91 + 22;
        k += 2;
    } else if c == 96 {
        v[k] = 2;
        v[k + 1] = 0;
        k += 2;
    } else if c >= other_alpha_lo && c < other_alpha_lo + 26 {
        v[k] = 2;
        v[k + 1] = c - other_alpha_lo + 1;
        k += 2;
    } else {
        // 123..=127
        v[k] = 2;
        v[k + 1] = c - 96;
        k += 2;
    }
    k
}

pub fn pack3(cw: &mut [u8], n: &mut usize, a: u8, b: u8, c: u8) {
    let v = 1600 * a as u32 + 40 * b as u32 + c as u32 + 1;
    put(cw, n, (v >> 8) as u8);
    put(cw, n, (v & 255) as u8);
}

pub fn x12_value(ch: u8) -> Option<u8> {
    if ch == 13 {
        Some(0)
    } else if ch == 42 {
        Some(1)
    } else if ch == 62 {
        Some(2)
    } else if ch == 32 {
        Some(3)
    } else if ch >= b'0' && ch <= b'9' {
        Some(ch - b'0' + 4)
    } else if ch >= b'A' && ch <= b'Z' {
        Some(ch - b'A' + 14)
    } else {
        None
    }
}

pub fn edifact_ok(ch: u8) -> bool {
    ch >= 32 && ch <= 94
}

/// Pack up to four 6-bit values (`k` of them, 1..=4) into 1..=3 codewords;
/// unused low bits are zero.
pub fn edifact_pack(cw: &mut [u8], n: &mut usize, v: &[u8; 4], k: usize) {
    let mut bits: u32 = 0;
    let mut j = 0;
    while j < 4 {
        bits <<= 6;
        if j < k {
            bits |= (v[j] & 63) as u32;
        }
        j += 1;
    }
    let bytes = if k == 1 { 1 } else if k == 2 { 2 } else { 3 };
    put(cw, n, (bits >> 16) as u8);
    if bytes >= 2 {
        put(cw, n, (bits >> 8) as u8);
    }
    if bytes >= 3 {
        put(cw, n, bits as u8);
    }
}

/// ASCII-mode size of a byte string (digit pairs count one codeword).
pub fn ascii_size(s: &[u8], n: usize) -> usize {
    let mut i = 0;
    let mut c = 0;
    while i < n {
        if i + 1 < n && s[i] >= b'0' && s[i] <= b'9' && s[i + 1] >= b'0' && s[i + 1] <= b'9' {
            i += 2;
            c += 1;
        } else {
            c += if s[i] >= 128 { 2 } else { 1 };
            i += 1;
        }
    }
    c
}
