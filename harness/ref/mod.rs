//! Reference models (oracles) written from the standards, independent of the
//! crate's code.  no_std, array based, constant loop bounds.
#![allow(dead_code)]
pub mod gf;
pub mod iso;
pub mod charset;
pub mod tables;
pub mod annexf;
pub mod kf;
