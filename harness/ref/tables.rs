//! Symbol attributes transcribed from ISO/IEC 16022:2006 Table 7 (ECC 200
//! symbol attributes) and ISO/IEC 21471:2020 Table 1 (DMRE), *not* from the crate.
//! Columns: rows, cols, region rows, region cols (data regions vertically /
//! horizontally), data codewords, error codewords (total), interleaved blocks.

#[derive(Clone, Copy)]
pub struct Attr {
    pub rows: usize,
    pub cols: usize,
    pub reg_v: usize,
    pub reg_h: usize,
    pub data: usize,
    pub ecc: usize,
    pub blocks: usize,
    pub dmre: bool,
}

const fn a(rows: usize, cols: usize, reg_v: usize, reg_h: usize, data: usize, ecc: usize, blocks: usize, dmre: bool) -> Attr {
    Attr { rows, cols, reg_v, reg_h, data, ecc, blocks, dmre }
}

/// Order: the 24 squares, the 6 rectangles of ISO/IEC 16022, the 18 DMRE sizes.
pub const TABLE: [Attr; 48] = [
    a(10, 10, 1, 1, 3, 5, 1, false),
    a(12, 12, 1, 1, 5, 7, 1, false),
    a(14, 14, 1, 1, 8, 10, 1, false),
    a(16, 16, 1, 1, 12, 12, 1, false),
    a(18, 18, 1, 1, 18, 14, 1, false),
    a(20, 20, 1, 1, 22, 18, 1, false),
    a(22, 22, 1, 1, 30, 20, 1, false),
    a(24, 24, 1, 1, 36, 24, 1, false),
    a(26, 26, 1, 1, 44, 28, 1, false),
    a(32, 32, 2, 2, 62, 36, 1, false),
    a(36, 36, 2, 2, 86, 42, 1, false),
    a(40, 40, 2, 2, 114, 48, 1, false),
    a(44, 44, 2, 2, 144, 56, 1, false),
    a(48, 48, 2, 2, 174, 68, 1, false),
    a(52, 52, 2, 2, 204, 84, 2, false),
    a(64, 64, 4, 4, 280, 112, 2, false),
    a(72, 72, 4, 4, 368, 144, 4, false),
    a(80, 80, 4, 4, 456, 192, 4, false),
    a(88, 88, 4, 4, 576, 224, 4, false),
    a(96, 96, 4, 4, 696, 272, 4, false),
    a(104, 104, 4, 4, 816, 336, 6, false),
    a(120, 120, 6, 6, 1050, 408, 6, false),
    a(132, 132, 6, 6, 1304, 496, 8, false),
    a(144, 144, 6, 6, 1558, 620, 10, false),
    a(8, 18, 1, 1, 5, 7, 1, false),
    a(8, 32, 1, 2, 10, 11, 1, false),
    a(12, 26, 1, 1, 16, 14, 1, false),
    a(12, 36, 1, 2, 22, 18, 1, false),
    a(16, 36, 1, 2, 32, 24, 1, false),
    a(16, 48, 1, 2, 49, 28, 1, false),
    a(8, 48, 1, 2, 18, 15, 1, true),
    a(8, 64, 1, 4, 24, 18, 1, true),
    a(8, 80, 1, 4, 32, 22, 1, true),
    a(8, 96, 1, 4, 38, 28, 1, true),
    a(8, 120, 1, 6, 49, 32, 1, true),
    a(8, 144, 1, 6, 63, 36, 1, true),
    a(12, 64, 1, 4, 43, 27, 1, true),
    a(12, 88, 1, 4, 64, 36, 1, true),
    a(16, 64, 1, 4, 62, 36, 1, true),
    a(20, 36, 1, 2, 44, 28, 1, true),
    a(20, 44, 1, 2, 56, 34, 1, true),
    a(20, 64, 1, 4, 84, 42, 1, true),
    a(22, 48, 1, 2, 72, 38, 1, true),
    a(24, 48, 1, 2, 80, 41, 1, true),
    a(24, 64, 1, 4, 108, 46, 1, true),
    a(26, 40, 1, 2, 70, 38, 1, true),
    a(26, 48, 1, 2, 90, 42, 1, true),
    a(26, 64, 1, 4, 118, 50, 1, true),
];
