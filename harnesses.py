"""Registry of solver queries (Kani harnesses) per property."""

COMMON_ASSUMPTIONS = [
    "Kani 0.68 translation of MIR to GOTO, CBMC 6.11 symbolic execution and CaDiCaL are sound",
    "rustc, core and alloc as compiled by Kani's pinned toolchain; allocation never fails",
    "every verdict is bounded: it covers exactly the symbolic ranges named in 'bounds' with unwinding assertions on, nothing outside",
]

KF_DEFAULTS = {}

def H_(name, mod, props, **kw):
    d = dict(name=name, mod=mod, props=props)
    d.update(kw)
    return d

ALL = []

def reg(*a, **k):
    ALL.append(H_(*a, **k))

DEC = ["decodation::decode_ascii", "decodation::decode_c40_like", "decodation::decode_x12", "decodation::decode_edifact",
       "decodation::decode_base256", "decodation::Reader", "decodation::decode_c40_tuple"]
for n in ("ascii_1","ascii_2","ascii_3","c40_2","c40_3","c40_4","text_2","text_3","text_4","x12_3","x12_5","edifact_3","edifact_5","edifact_7","b256_3","b256_5"):
    reg("acc_" + n, "dec", ["C04", "C05"], profiles=["dev"], cap=600, bounds="", encodes=[])
reg("np_tuple", "dec", ["C05", "C04"], profiles=["dev", "rel"], cap=60,
    bounds="both codewords of a C40/Text/X12 pair: all 65536 values", encodes=["decodation::decode_c40_tuple"])
reg("eci_read_any", "dec", ["C05", "C15"], profiles=["dev", "rel"], cap=120,
    bounds="3 arbitrary codewords after the ECI codeword, length 0..=3", encodes=["decodation::read_eci"])
reg("acc_b256_pos", "dec", ["C04"], cap=300, bounds="Base256 field of 1..=2 symbolic bytes, explicit length or length 0, at symbolic absolute position 0..=1555", encodes=["decodation::decode_base256", "decodation::derandomize_255_state"])
reg("acc_b256_len2", "dec", ["C04"], cap=300, bounds="two-codeword Base256 length 250..=1555 at symbolic position 0..=1300", encodes=["decodation::decode_base256"])
reg("acc_pad_pos", "dec", ["C04", "C05"], cap=300, bounds="PAD + 0..=3 pads at symbolic position 0..=1554, optionally one pad corrupted by a symbolic delta", encodes=["decodation::decode_ascii", "decodation::derandomize_253_state"])
reg("acc_ascii_eci", "dec", ["C04"], cap=300, bounds="ASCII char, ECI codeword, one-codeword designator, two ASCII chars, all symbolic", encodes=["decodation::decode_ascii", "decodation::read_eci"])
reg("oracle_c40_rt", "dec", ["C04"], cap=300, role="oracle-validation", bounds="reference C40/Text encoder -> reference decoder, 2 symbolic chars", encodes=[])
reg("oracle_edifact_rt", "dec", ["C04"], cap=300, role="oracle-validation", bounds="reference EDIFACT encoder -> reference decoder, 1..=4 symbolic chars", encodes=[])

ECI = ["decodation::eci::convert_chunk", "decodation::eci::decode_iso_8859_9", "decodation::eci::decode_iso_8859_11", "data::latin1_to_utf8_mut"]
reg("eci_tab_3", "eci", ["C15", "C05"], cap=200, bounds="one byte, all 256 values, ECI 0 and 3", encodes=ECI)
reg("eci_tab_11", "eci", ["C15", "C05"], cap=200, bounds="one byte, all 256 values, ECI 11", encodes=ECI)
reg("eci_tab_13", "eci", ["C15", "C05"], cap=200, bounds="one byte, all 256 values, ECI 13", encodes=ECI)
reg("eci_ascii_2", "eci", ["C15", "C05"], cap=600, bounds="0, 1 and 2 arbitrary bytes under ECI 27", encodes=ECI)
reg("eci_utf8_2", "eci", ["C15", "C05"], cap=600, bounds="0, 1 and 2 arbitrary bytes under ECI 26", encodes=ECI)
reg("eci_utf8_3", "eci", ["C15", "C05"], cap=900, bounds="3 arbitrary bytes under ECI 26", encodes=ECI)
reg("eci_utf8_4", "eci", ["C15", "C05"], cap=1800, tier="thorough", bounds="4 arbitrary bytes under ECI 26", encodes=ECI)
reg("np_eci_chunk", "eci", ["C05"], profiles=["dev", "rel"], cap=300, bounds="any u32 ECI number, 0..=2 arbitrary bytes", encodes=ECI)
reg("eci_convert_spans", "eci", ["C14", "C05"], cap=400, bounds="0..=3 arbitrary bytes, one ECI span (3, 11, 26 or 27) at a symbolic offset", encodes=["decodation::eci::convert"] + ECI)
reg("str_latin1_char", "data", ["C14"], cap=300, bounds="one arbitrary Unicode scalar value (all 0x10F800)", encodes=["data::utf8_to_latin1"])
reg("str_latin1_byte", "data", ["C14"], cap=300, bounds="one byte, all 256 values", encodes=["data::latin1_to_utf8", "data::latin1_to_utf8_mut"])
reg("str_latin1_two", "data", ["C14"], cap=300, bounds="two printable Latin-1 bytes, round trip through both helpers", encodes=["data::latin1_to_utf8", "data::utf8_to_latin1"])
reg("str_dispatch_1", "lib", ["C14"], cap=900, stubbing=True, bounds="every one-character string (any Unicode scalar value); DataMatrixBuilder::encode_eci replaced by a recording stub", encodes=["DataMatrixBuilder::encode_str", "data::utf8_to_latin1"])
reg("str_dispatch", "lib", ["C14"], cap=3600, mem_gb=20, tier="thorough", role="attempt", stubbing=True, bounds="every string of 1..=2 arbitrary Unicode scalar values; DataMatrixBuilder::encode_eci replaced by a recording stub",
    encodes=["DataMatrixBuilder::encode_str", "data::utf8_to_latin1"])

for n in ("acc_c40_st","acc_text_st"):
    reg(n, "dec", ["C04","C05"], cap=600, bounds="", encodes=["decodation::decode_c40_like"])
for n in ("ascii_2","ascii_3","c40_1","c40_2","c40_3","text_2","text_3","x12_3","x12_5","edifact_2","edifact_4","edifact_5","b256_2","b256_3"):
    reg("conf_" + n, "enc", ["C02", "C11", "C01"], cap=900, bounds="", encodes=[])
reg("eci_rt", "enc", ["C15", "C02", "C11"], cap=300, bounds="every ECI number 0..=999999", encodes=["encodation::GenericDataEncoder::write_eci", "decodation::read_eci"])
for n in ("mac_iff_12", "mac_iff_9_10", "mac_iff_7_8", "mac_iff_short"):
    reg(n, "enc", ["C16", "C11", "C01"], cap=600, bounds="", encodes=["encodation::GenericDataEncoder::with_size", "encodation::GenericDataEncoder::use_macro_if_possible", "GenericDataEncoder::eat/backup/rest"])
reg("pad_conf", "enc", ["C02", "C01"], cap=600, bounds="", encodes=["encodation::GenericDataEncoder::add_padding"])
SYM = ["symbol_size::SymbolSize::num_data_codewords", "symbol_size::SymbolSize::block_setup", "symbol_size::SymbolSize::capacity", "symbol_size::SymbolSize::is_square/is_dmre/has_padding_modules", "symbol_size::BlockSetup::content_width/height"]
reg("cat_attr", "sym", ["C12"], cap=300, bounds="symbolic index over all 48 sizes", encodes=SYM)
reg("cat_ord", "sym", ["C12"], cap=600, bounds="three symbolic indices over all 48 sizes", encodes=["symbol_size::<SymbolSize as Ord>::cmp", "PartialOrd", "PartialEq"] + SYM[:2])
reg("cat_all_once", "sym", ["C12"], cap=300, bounds="closed term: SYMBOL_SIZES array x symbolic variant index", encodes=["symbol_size::SYMBOL_SIZES"])
reg("cat_caps_table", "sym", ["C12", "C02"], cap=300, role="oracle-validation", bounds="symbolic index over all 48 sizes", encodes=SYM[:1])
for n in ("cat_filter_w_ei", "cat_filter_w_ie", "cat_filter_w_uu", "cat_filter_w_eu", "cat_filter_w_ui", "cat_filter_h_ei", "cat_filter_h_ie", "cat_filter_h_eu", "cat_filter_h_ue", "cat_filter_sq", "cat_filter_re"):
    reg(n, "sym", ["C12"], cap=900, bounds="concrete 3-symbol list, symbolic (Bound, Bound) with values 0..=40 and kinds unbounded/included/excluded, symbolic filter kind", encodes=["SymbolList::enforce_width_in", "SymbolList::enforce_height_in", "SymbolList::enforce_square", "SymbolList::enforce_rectangular", "SymbolList::with_whitelist", "SymbolList::contains"])
for n in ("cat_first_0", "cat_first_1", "cat_first_2", "cat_first_3"):
    reg(n, "sym", ["C12", "C11", "C02"], cap=900, bounds="concrete list of 0..=3 symbols, symbolic need 0..=3200", encodes=["SymbolList::first_symbol_big_enough_for", "SymbolList::upper_limit_for_number_of_codewords", "SymbolList::max_capacity", "SymbolList::is_empty"])
reg("gf_mul", "gf", ["C06"], cap=300, bounds="all 65536 operand pairs", encodes=["galois::<GF as Mul>::mul", "galois::LOG", "galois::ANTI_LOG"])
reg("gf_div", "gf", ["C06", "C05"], cap=300, bounds="all dividends x all non-zero divisors", encodes=["galois::<GF as Div>::div"])
reg("gf_log_pow", "gf", ["C06"], cap=300, bounds="all non-zero elements; all exponents 0..=254", encodes=["galois::GF::log", "galois::GF::primitive_power", "Add/Sub/Neg"])
for n in "abcdef":
    reg("rs_gen_" + n, "ec", ["C06"], cap=900, mem_gb=16, bounds="closed terms: generator polynomials of a group of degrees vs prod (x + 2^i)", encodes=["errorcode::GENERATOR_POLYNOMIALS", "errorcode::generator"])
reg("rs_gen_exists", "ec", ["C06", "C12"], cap=300, bounds="symbolic index over the 48 sizes", encodes=["errorcode::generator", "SymbolSize::block_setup"])
for n in ("5_11", "12_18", "20", "22", "24", "27", "28", "32", "34", "36", "38", "41", "42", "46", "48", "50", "56", "62", "68"):
    reg("rs_step_" + n, "ec", ["C06"], cap=900, bounds="one LFSR step from an arbitrary register state (k symbolic bytes) with an arbitrary data byte", encodes=["errorcode::ecc_block", "errorcode::generator"])
for n in ("sq10", "sq52", "sq64", "sq72", "sq104", "sq132", "sq144", "r8x32"):
    reg("rs_il_" + n, "ec", ["C06", "C01"], cap=1200, mem_gb=16, bounds="all data codewords zero except the last one of every interleaved block (symbolic)", encodes=["errorcode::encode_error", "errorcode::ecc_block"])
reg("rs_il2_sq144", "ec", ["C06"], cap=1800, mem_gb=16, tier="thorough", bounds="144x144: the last 20 data codewords symbolic (two per block), the rest zero", encodes=["errorcode::encode_error"])
PL = ["placement::IndexTraversal::run", "placement::IndexTraversal::utah", "placement::IndexTraversal::corner1..4", "placement::IndexTraversal::idx"]
for n in ("sq10","sq12","sq14","sq16","sq18","sq20","sq22","sq24","sq26","sq32","sq36","sq40","sq44","r8x18","r8x32","r12x26","r12x36","r16x36","r16x48","r8x48","r8x64","r8x80","r8x96","r8x120","r8x144","r12x64","r12x88","r16x64","r20x36","r20x44","r20x64","r22x48","r24x48","r24x64","r26x40","r26x48","r26x64"):
    reg("pl_idx_" + n, "place", ["C07", "C01"], cap=1800, mem_gb=16, bounds="closed term per shape: the complete traversal vs Annex F", encodes=PL)
reg("pl_cell_any", "place", ["C07"], cap=900, bounds="symbolic even mapping matrix 6..=132 x 6..=132, symbolic (i, j) inside it", encodes=PL[1:])
for n in ("sq10", "sq12", "r8x18"):
    reg("pl_rw_" + n, "place", ["C07", "C01"], cap=1800, mem_gb=16, bounds="all codewords of the symbol symbolic", encodes=["placement::MatrixMap::new_with_codewords", "copy_from_codewords", "traverse_mut", "bits_mut", "write_padding", "codewords", "traverse"] + PL)
for n in ("sq10", "r8x18", "r8x32", "sq32", "r12x36", "r8x64"):
    reg("fd_render_" + n, "place", ["C08", "C01"], cap=1800, mem_gb=16, bounds="every mapping-matrix entry symbolic", encodes=["placement::MatrixMap::bitmap", "placement::MatrixMap::new"])
reg("synd_eval", "ecdec", ["C09", "C03", "C06"], cap=600, bounds="4 symbolic codewords, 3 syndromes", encodes=["decoding::primitive_element_evaluation"])
reg("chien_lin", "ecdec", ["C05", "C03", "C09"], profiles=["dev", "rel"], cap=300, bounds="both coefficients symbolic, symbolic probe element", encodes=["decoding::chien_search"])
reg("chien_small", "ecdec", ["C05"], cap=300, bounds="empty and constant polynomials", encodes=["decoding::chien_search"])
reg("chien_quad", "ecdec", ["C03", "C09"], cap=1800, mem_gb=16, role="attempt", tier="thorough", bounds="three symbolic coefficients, leading != 0; full 255-step search", encodes=["decoding::chien_search"])
LD = ["syndrome_based::find_inv_error_locations_levinson_durbin"]
for n in ("k2_z0","k2_z1","k3_z0","k3_z1","k3_z2","k4_z0","k4_z1","k4_z2","k4_z3","k5_z0","k5_z0_ff","k5_z1","k5_z2","k5_z3","k5_z4","k6_z0","k6_z1","k6_z2","k7_z0","k7_z1","k7_z2","k7_z3"):
    reg("ld_np_" + n, "synd", ["C05"], profiles=["rel", "dev"], cap=900, bounds="syndrome vector of length k, z literal leading zeros, first non-zero syndrome a constant, the rest symbolic; safety only", encodes=LD)
for n in ("k2_z0","k3_z0","k4_z0","k4_z1","k5_z0","k5_z1","k6_z0","k6_z1","k6_z2","k7_z2"):
    reg("ld_ct_" + n, "synd", ["C09"], profiles=["rel"], cap=1800, bounds="same inputs; Ok(w) satisfies rows 0..t-1 of the Hankel system", encodes=LD)
reg("ld_scale", "synd", ["C03", "C09"], profiles=["rel"], cap=900, role="assumption-check", bounds="k=4, factors 2, 0x80, 0xFF, 3 symbolic syndromes", encodes=LD)
for n in ("bp_1", "bp_2", "bp_3"):
    reg(n, "synd", ["C03", "C05"], profiles=["rel"], cap=900, bounds="1..3 distinct non-zero locators and arbitrary error values", encodes=["syndrome_based::find_error_values_bp"])
GEN = ["syndrome_based::decode_gen", "decoding::primitive_element_evaluation", "decoding::chien_search", "syndrome_based::find_error_values_bp"] + LD
for n in ("k2_b0", "k2_b1", "k3_b0", "k3_b1"):
    reg("cap_gen_" + n, "synd", ["C03"], profiles=["rel"], cap=1200, bounds="toy interleaved code (stride 2, 5 data codewords, k EC per block): zero codeword + 1 error at a symbolic position/value in the block, symbolic garbage in the other block", encodes=GEN)
for n in ("k2_z0_b0", "k2_z1_b1", "k3_z0_b0", "k3_z0_b1", "k3_z1_b0", "k3_z2_b1"):
    reg("ok_gen_" + n, "synd", ["C09", "C05"], profiles=["rel"], cap=2400, mem_gb=16, bounds="toy interleaved code, EVERY byte of the received word symbolic, z leading zero syndromes", encodes=GEN)
for n in ("k2_z0_b0", "k3_z0_b0", "k3_z0_b1", "k3_z1_b0", "k3_z2_b1"):
    reg("ok_w2_" + n, "synd", ["C09", "C05"], profiles=["rel"], cap=2400, mem_gb=16, bounds="toy interleaved code: zero codeword + 2 errors (t+1) at symbolic positions/values in the block, garbage in the other block", encodes=GEN)
for n in ("ok_contract_k2", "ok_contract_k3"):
    reg(n, "synd", ["C09", "C05"], profiles=["rel"], cap=2400, mem_gb=16, bounds="toy code, every byte symbolic, locator search replaced by its contract", encodes=GEN[:4])
reg("gen_identity", "synd", ["C01", "C03"], profiles=["rel"], cap=900, bounds="toy code k=3, arbitrary codeword of block 0", encodes=GEN[:2])
for n in ("ascii_3", "c40_2", "c40_3", "text_2", "x12_3", "x12_4", "x12_5", "edifact_2", "edifact_3", "edifact_4", "edifact_5", "b256_2"):
    reg("cpl_" + n, "plan", ["C18", "C11"], cap=1800, mem_gb=16, bounds="", encodes=[])
reg("stub_consts_ok", "sym", ["C08", "C05", "C12"], cap=300, role="stub-validation", bounds="closed terms + symbolic index over the 48 sizes", encodes=SYM[:2])
TFB = ["placement::MatrixMap::try_from_bits", "placement::MatrixMap::bitmap"]
for n in ("sq10", "sq12", "r8x18", "r8x32"):
    reg("fd_strict_" + n, "place", ["C08", "C05"], cap=2400, mem_gb=20, stubbing=True, unwindset=[("btree", 4)], bounds="every pixel of the shape symbolic; SymbolList::all / block_setup / has_padding_modules stubbed to this one size", encodes=TFB)
for n in ("r8x32", "sq12"):
    reg("fd_parse_" + n, "place", ["C08", "C01"], cap=2400, mem_gb=20, stubbing=True, unwindset=[("btree", 4)], bounds="every mapping-matrix entry symbolic; same stubs", encodes=TFB)
reg("fd_ragged_r8x18", "place", ["C08", "C05"], cap=600, stubbing=True, unwindset=[("btree", 4)], bounds="8x18 symbol + 1 / + 17 stray pixels, width 0; pixel values symbolic", encodes=TFB[:1])
reg("fd_reject_small", "place", ["C08", "C05"], cap=900, stubbing=True, unwindset=[("btree", 4)], bounds="symbolic width 0..=12, length 0..=40; SymbolList::all stubbed to the two smallest sizes", encodes=TFB[:1])
H = [h for h in ALL]

PROPS = {}
