"""Registry of solver queries (Kani harnesses) per property."""

COMMON_ASSUMPTIONS = [
    "Kani 0.68 translation of MIR to GOTO, CBMC 6.11 symbolic execution and CaDiCaL are sound",
    "rustc, core and alloc as compiled by Kani's pinned toolchain; allocation never fails",
    "every verdict is bounded: it covers exactly the symbolic ranges named in 'bounds' with unwinding assertions on, nothing outside",
]

KF_DEFAULTS = {}

def H_(name, mod, props, **kw):
    d = dict(name=name, mod=mod, props=props)
    d.update(kw)
    return d

ALL = []

def reg(*a, **k):
    ALL.append(H_(*a, **k))

DEC = ["decodation::decode_ascii", "decodation::decode_c40_like", "decodation::decode_x12", "decodation::decode_edifact",
       "decodation::decode_base256", "decodation::Reader", "decodation::decode_c40_tuple"]
for n in ("ascii_1","ascii_2","ascii_3","c40_2","c40_3","c40_4","text_2","text_3","text_4","x12_3","x12_5","edifact_3","edifact_5","edifact_7","b256_3","b256_5"):
    reg("acc_" + n, "dec", ["C04", "C05"], profiles=["dev"], cap=600, bounds="", encodes=[])
reg("np_tuple", "dec", ["C05", "C04"], profiles=["dev", "rel"], cap=60,
    bounds="both codewords of a C40/Text/X12 pair: all 65536 values", encodes=["decodation::decode_c40_tuple"])
reg("eci_read_any", "dec", ["C05", "C15"], profiles=["dev", "rel"], cap=120,
    bounds="3 arbitrary codewords after the ECI codeword, length 0..=3", encodes=["decodation::read_eci"])
reg("acc_b256_pos", "dec", ["C04"], cap=300, bounds="Base256 field of 1..=2 symbolic bytes, explicit length or length 0, at symbolic absolute position 0..=1555", encodes=["decodation::decode_base256", "decodation::derandomize_255_state"])
reg("acc_b256_len2", "dec", ["C04"], cap=300, bounds="two-codeword Base256 length 250..=1555 at symbolic position 0..=1300", encodes=["decodation::decode_base256"])
reg("acc_pad_pos", "dec", ["C04", "C05"], cap=300, bounds="PAD + 0..=3 pads at symbolic position 0..=1554, optionally one pad corrupted by a symbolic delta", encodes=["decodation::decode_ascii", "decodation::derandomize_253_state"])
reg("acc_ascii_eci", "dec", ["C04"], cap=300, bounds="ASCII char, ECI codeword, one-codeword designator, two ASCII chars, all symbolic", encodes=["decodation::decode_ascii", "decodation::read_eci"])
reg("oracle_c40_rt", "dec", ["C04"], cap=300, role="oracle-validation", bounds="reference C40/Text encoder -> reference decoder, 2 symbolic chars", encodes=[])
reg("oracle_edifact_rt", "dec", ["C04"], cap=300, role="oracle-validation", bounds="reference EDIFACT encoder -> reference decoder, 1..=4 symbolic chars", encodes=[])

ECI = ["decodation::eci::convert_chunk", "decodation::eci::decode_iso_8859_9", "decodation::eci::decode_iso_8859_11", "data::latin1_to_utf8_mut"]
reg("eci_tab_3", "eci", ["C15", "C05"], cap=200, bounds="one byte, all 256 values, ECI 0 and 3", encodes=ECI)
reg("eci_tab_11", "eci", ["C15", "C05"], cap=200, bounds="one byte, all 256 values, ECI 11", encodes=ECI)
reg("eci_tab_13", "eci", ["C15", "C05"], cap=200, bounds="one byte, all 256 values, ECI 13", encodes=ECI)
reg("eci_utf8_ascii", "eci", ["C15", "C05"], cap=300, bounds="0..=3 arbitrary bytes under ECI 26 and ECI 27", encodes=ECI)
reg("np_eci_chunk", "eci", ["C05"], profiles=["dev", "rel"], cap=300, bounds="any u32 ECI number, 0..=2 arbitrary bytes", encodes=ECI)
reg("eci_convert_spans", "eci", ["C14", "C05"], cap=400, bounds="0..=3 arbitrary bytes, one ECI span (3, 11, 26 or 27) at a symbolic offset", encodes=["decodation::eci::convert"] + ECI)
reg("str_latin1_char", "data", ["C14"], cap=300, bounds="one arbitrary Unicode scalar value (all 0x10F800)", encodes=["data::utf8_to_latin1"])
reg("str_latin1_byte", "data", ["C14"], cap=300, bounds="one byte, all 256 values", encodes=["data::latin1_to_utf8", "data::latin1_to_utf8_mut"])
reg("str_latin1_two", "data", ["C14"], cap=300, bounds="two printable Latin-1 bytes, round trip through both helpers", encodes=["data::latin1_to_utf8", "data::utf8_to_latin1"])
reg("str_dispatch", "lib", ["C14"], cap=600, stubbing=True, bounds="every string of 1..=2 arbitrary Unicode scalar values; DataMatrixBuilder::encode_eci replaced by a recording stub",
    encodes=["DataMatrixBuilder::encode_str", "data::utf8_to_latin1"])

for n in ("acc_c40_st","acc_text_st"):
    reg(n, "dec", ["C04","C05"], cap=600, bounds="", encodes=["decodation::decode_c40_like"])
H = [h for h in ALL]

PROPS = {}
