"""Registry of solver queries (Kani harnesses): which property they serve, tier,
build profiles, caps and the bounds they cover (copied into the evidence)."""

COMMON_ASSUMPTIONS = [
    "Kani 0.68 translation of MIR to GOTO, CBMC 6.11 symbolic execution and CaDiCaL are sound",
    "rustc, core and alloc as compiled by Kani's pinned toolchain; allocation never fails",
    "every verdict is bounded: it covers exactly the symbolic ranges named in 'bounds' with unwinding assertions on, nothing outside",
    "the oracles in /verif/harness/ref (ISO/IEC 16022 codecs, Annex F placement, Table 7 / ISO 21471 attributes, GF(256) shift-xor arithmetic, charset rules) are transcribed correctly from the standards",
]

KF_DEFAULTS = {}

ALL = []


def reg(name, mod, props, **kw):
    d = dict(name=name, mod=mod, props=props)
    d.update(kw)
    ALL.append(d)


Q, T = "quick", "thorough"

# --------------------------------------------------------------------------- decoders (C04, C05)
DEC = "decodation::"
_dec_fn = {"ascii": "decode_ascii", "c40": "decode_c40_like", "text": "decode_c40_like", "x12": "decode_x12",
           "edifact": "decode_edifact", "b256": "decode_base256"}
for n, lens, tier, cap in (("ascii_1", "0..=1", Q, 600), ("ascii_2", "2", Q, 900), ("ascii_3", "3", T, 1800),
                           ("c40_2", "1..=2", Q, 600), ("c40_3", "3", Q, 600), ("text_2", "1..=2", Q, 600), ("text_3", "3", Q, 600),
                           ("x12_3", "1..=3", Q, 600), ("x12_5", "4..=5", Q, 600),
                           ("edifact_3", "1..=3", Q, 600), ("edifact_5", "4..=5", Q, 600), ("edifact_7", "6..=7", Q, 600),
                           ("b256_3", "1..=3", Q, 600), ("b256_5", "4..=5", Q, 600)):
    m = n.split("_")[0]
    reg("acc_" + n, "dec", ["C04", "C05"], tier=tier, cap=cap, mem_gb=14 if m == "ascii" else 8, qprops=["C04", "C05"] if n in ("ascii_1", "c40_2", "x12_3", "edifact_3", "b256_3") else ["C04"],
        bounds="one %s run of %s arbitrary codewords (all 256 values each), run to the end of the stream; crate decoder vs independent ISO/IEC 16022 decoder: accepted by the reference => accepted with the same bytes, end index and next mode; never panics; makes progress" % (m, lens),
        encodes=[DEC + _dec_fn[m], DEC + "Reader", DEC + "decode_c40_tuple"] + ([DEC + "read_eci"] if m == "ascii" else []))
for n in ("c40", "text"):
    reg("acc_%s_st" % n, "dec", ["C04", "C05"], tier=Q if n == "c40" else T, qprops=["C04"], cap=2400, mem_gb=12,
        bounds="%s: for each of the 7 non-initial decoder states (pending shift set x pending upper shift) a concrete codeword pair producing it, followed by 2 arbitrary codewords (one inductive step over pairs)" % n,
        encodes=[DEC + "decode_c40_like"])
reg("np_tuple", "dec", ["C05", "C04"], profiles=["dev", "rel"], cap=120,
    bounds="both codewords of a C40/Text/X12 pair: all 65536 values", encodes=[DEC + "decode_c40_tuple"])
reg("eci_read_any", "dec", ["C05", "C15"], profiles=["dev", "rel"], cap=300,
    bounds="0..=3 arbitrary codewords after the ECI codeword: Ok(c) exactly for the one/two/three-codeword forms, with the standard's value", encodes=[DEC + "read_eci"])
reg("acc_b256_pos", "dec", ["C04"], cap=300,
    bounds="Base256 field of 1..=2 symbolic bytes, explicit length or length 0 (to end of symbol), at a symbolic absolute position 0..=1555", encodes=[DEC + "decode_base256", DEC + "derandomize_255_state"])
reg("acc_b256_len2", "dec", ["C04"], cap=300,
    bounds="two-codeword Base256 length 250..=1555 (symbolic) at a symbolic position 0..=1300", encodes=[DEC + "decode_base256"])
reg("acc_b256_len1", "dec", ["C04", "C01"], cap=600, bounds="one-codeword Base256 length 1..=249 (symbolic, incl. the boundary 249) at a symbolic position 0..=1300, two data codewords follow", encodes=[DEC + "decode_base256"])
reg("acc_pad_pos", "dec", ["C04", "C05"], tier=T, cap=1200,
    bounds="PAD + 0..=3 pads at a symbolic position 0..=1554, optionally one pad corrupted by a symbolic delta", encodes=[DEC + "decode_ascii", DEC + "derandomize_253_state"])
reg("acc_ascii_eci", "dec", ["C04"], tier=T, cap=1200,
    bounds="ASCII char, ECI codeword, one-codeword designator, two ASCII chars, all symbolic", encodes=[DEC + "decode_ascii", DEC + "read_eci"])
reg("parts_macro05", "dec", ["C16", "C04", "C01"], cap=1500, mem_gb=24, tier=T, role="attempt", stubbing=True, bounds="decode_parts on [236, two arbitrary ASCII codewords 1..=128]: header + body + RS EOT; all six mode decoders stubbed (ASCII by a plain-character model)", encodes=[DEC + "decode_parts", DEC + "decode_ascii"])
reg("parts_macro06_fnc1", "dec", ["C16", "C04", "C01"], cap=1500, mem_gb=24, tier=T, role="attempt", stubbing=True, bounds="decode_parts on [237, 2 ASCII codewords], [232, 1 ASCII codeword], [236] alone; same stubs", encodes=[DEC + "decode_parts", DEC + "decode_ascii"])
reg("oracle_c40_rt", "dec", ["C04"], cap=300, role="oracle-validation",
    bounds="reference C40/Text encoder -> reference decoder, 2 symbolic chars", encodes=[])
reg("oracle_edifact_rt", "dec", ["C04"], cap=300, role="oracle-validation",
    bounds="reference EDIFACT encoder -> reference decoder, 1..=4 symbolic chars", encodes=[])

# --------------------------------------------------------------------------- ECI / charsets / string API (C15, C14, C05)
ECI = ["decodation::eci::convert_chunk", "decodation::eci::decode_iso_8859_9", "decodation::eci::decode_iso_8859_11", "data::latin1_to_utf8_mut"]
reg("eci_tab_3", "eci", ["C15", "C05"], cap=600, bounds="one byte, all 256 values, ECI 0 and 3 vs ISO-8859-1", encodes=ECI)
reg("eci_tab_11", "eci", ["C15", "C05"], cap=600, bounds="one byte, all 256 values, ECI 11 vs ISO-8859-9", encodes=ECI)
reg("eci_tab_13", "eci", ["C15", "C05"], cap=600, bounds="one byte, all 256 values, ECI 13 vs ISO-8859-11", encodes=ECI)
reg("eci_ascii_2", "eci", ["C15", "C05"], cap=600, bounds="0, 1 and 2 arbitrary bytes under ECI 27", encodes=ECI)
reg("eci_utf8_2", "eci", ["C15", "C05"], cap=600, bounds="0, 1 and 2 arbitrary bytes under ECI 26", encodes=ECI)
reg("eci_utf8_3", "eci", ["C15", "C05"], cap=900, bounds="3 arbitrary bytes under ECI 26", encodes=ECI)
reg("eci_utf8_4", "eci", ["C15"], cap=2400, tier=T, role="attempt", bounds="4 arbitrary bytes under ECI 26", encodes=ECI)
reg("np_eci_chunk", "eci", ["C05"], profiles=["dev", "rel"], cap=900, bounds="any u32 ECI number, 0, 1 and 2 arbitrary bytes", encodes=ECI)
reg("str_latin1_char", "data", ["C14"], cap=900, bounds="one arbitrary Unicode scalar value (all 1,112,064)", encodes=["data::utf8_to_latin1"])
reg("str_latin1_byte", "data", ["C14"], cap=300, bounds="one byte, all 256 values", encodes=["data::latin1_to_utf8", "data::latin1_to_utf8_mut"])
reg("str_latin1_two", "data", ["C14"], cap=1800, tier=T, bounds="two printable Latin-1 bytes, round trip through both helpers", encodes=["data::latin1_to_utf8", "data::utf8_to_latin1"])
DSP = ["DataMatrixBuilder::encode_str", "data::utf8_to_latin1"]
reg("str_dispatch_ascii", "lib", ["C14"], cap=900, stubbing=True, bounds="every one-character string U+0000..=U+007F; DataMatrixBuilder::encode_eci replaced by a recording stub", encodes=DSP)
reg("str_dispatch_2byte", "lib", ["C14"], cap=900, stubbing=True, bounds="every one-character string U+0080..=U+07FF; same stub", encodes=DSP)
reg("str_dispatch_2ascii", "lib", ["C14"], cap=1200, stubbing=True, bounds="every two-character string over U+0000..=U+007F; same stub", encodes=DSP)
reg("str_dispatch_3byte", "lib", ["C14"], cap=2400, tier=T, role="attempt", stubbing=True, bounds="every one-character string U+0800..=U+FFFF (no surrogates); same stub", encodes=DSP)

# --------------------------------------------------------------------------- encoders (C02, C11, C01), prelude (C16), ECI writer (C15)
_enc_fn = {"ascii": ["encodation::ascii::encode"], "c40": ["encodation::c40::encode", "c40::encode_generic", "c40::handle_end", "c40::write_three_values"],
           "text": ["encodation::text::encode", "c40::encode_generic", "c40::handle_end"], "x12": ["encodation::x12::encode"],
           "edifact": ["encodation::edifact::encode", "edifact::handle_end", "edifact::write4"], "b256": ["encodation::base256::encode", "base256::write_length"]}
for n, tier, cap in (("ascii_2", Q, 600), ("ascii_3", Q, 900), ("c40_1", Q, 900), ("c40_2", Q, 2400), ("c40_3", T, 3600),
                     ("text_2", T, 2400), ("text_3", T, 3600), ("x12_3", Q, 900), ("x12_5", Q, 1200),
                     ("edifact_2", Q, 900), ("edifact_4", Q, 1200), ("edifact_5", T, 1800), ("b256_2", Q, 900), ("b256_3", Q, 1200)):
    m, l = n.split("_")
    reg("conf_" + n, "enc", ["C02", "C11", "C01"], tier=tier, cap=cap, mem_gb=16 if (tier == T or n == "c40_2") else 8,
        qprops=["C02", "C11", "C01"] if n in ("ascii_2", "x12_3", "edifact_2", "b256_2", "c40_1") else ["C02", "C11"] if n in ("edifact_4", "b256_3") else ["C02"],
        role="attempt" if n in ("c40_3", "text_3") else "lemma",
        bounds="real %s encoder over the array-backed context HEnc: %s arbitrary characters (%s), 1..=8 codewords already present, symbol list = any 1..3 ascending capacities from the real catalogue (<= 43), planned switch to ASCII at any character or none; stream finished as the dispatch loop does (rest in ASCII, UNLATCH, PAD, 253-state pads) and decoded by the independent ISO/IEC 16022 decoder: output == input, no assertion/overflow/index failure" % (m, l, "EDIFACT-encodable" if m == "edifact" else "X12-native in the full triples" if m == "x12" else "all 256 values"),
        encodes=_enc_fn[m] + ["encodation::ascii::encode", "encodation::ascii::encoding_size"])
for n in ("249", "250", "499", "500", "1554", "1555"):
    reg("wl_b256_" + n, "b256", ["C11", "C02", "C01"], cap=1500, mem_gb=12, tier=Q if n in ("249", "250") else T, role="lemma" if n in ("249", "250") else "attempt", qprops=["C11", "C02"] if n == "250" else ["C11"],
        bounds="base256::write_length alone on a field of exactly %s data codewords already written (first and last symbolic, rest 0), no characters left, 0..=2 (symbolic) codewords of room left in the symbol: Ok, no panic, the standard's one/two-codeword length (or 0 = to the end of the symbol), 255-state randomisation at the final positions" % n,
        encodes=["encodation::base256::write_length", "encodation::base256::randomize_255_state"])
for n in ("249", "250", "251", "1555"):
    reg("conf_b256_" + n, "enc", ["C02", "C01", "C11"], cap=1800, mem_gb=20 if n == "1555" else 16, tier=T if n == "1555" else Q, role="attempt" if n == "1555" else "lemma",
        qprops=["C02", "C01"] if n == "250" else ["C02"],
        bounds="Base256 run of exactly %s bytes (one symbolic byte repeated) to the end of the data, explicit length: length field per ISO/IEC 16022 (1 codeword up to 249, 2 from 250), content de-randomises to the input, no panic" % n,
        encodes=["encodation::base256::encode", "base256::write_length", "base256::randomize_255_state"])
reg("eci_rt", "enc", ["C15", "C02", "C11"], cap=600, bounds="every ECI number 0..=999999: form per ISO/IEC 16022 and read back by read_eci",
    encodes=["encodation::GenericDataEncoder::write_eci", "decodation::read_eci"])
MAC = ["encodation::GenericDataEncoder::with_size", "encodation::GenericDataEncoder::use_macro_if_possible", "GenericDataEncoder::eat", "GenericDataEncoder::backup", "GenericDataEncoder::rest"]
reg("mac_iff_12", "enc", ["C16", "C11", "C01"], cap=600, bounds="every 12-byte input x FNC1 flag; then eat k<=3, backup j<=k", encodes=MAC)
reg("mac_iff_9_10", "enc", ["C16", "C11", "C01"], cap=600, bounds="every 9- and 10-byte input x FNC1 flag; cursor as above", encodes=MAC)
reg("mac_iff_7_8", "enc", ["C16", "C11", "C01"], cap=600, bounds="every 7- and 8-byte input (bare header, header+1) x FNC1 flag", encodes=MAC)
reg("mac_iff_short", "enc", ["C16", "C11"], cap=300, bounds="every input of length 0, 1, 2, 5 x FNC1 flag", encodes=MAC)
reg("tot_empty_list", "enc", ["C11"], cap=900, bounds="real GenericDataEncoder::codewords with the EMPTY symbol list, every input of length 0, 1, 3, 7, FNC1 flag symbolic: SymbolListEmpty", encodes=["encodation::GenericDataEncoder::codewords (entry checks)", "SymbolList::is_empty", "SymbolList::max_capacity"])
reg("pad_conf", "enc", ["C02", "C01"], cap=900, bounds="every symbol size with <= 64 data codewords (symbolic), 0..=3 free codewords, ASCII or non-ASCII mode at the end",
    encodes=["encodation::GenericDataEncoder::add_padding"])

# --------------------------------------------------------------------------- planner coupling (C18, C11)
_plan_fn = {"ascii": "planner::ascii::AsciiPlan", "c40": "planner::c40::C40LikePlan<C40Charset>", "text": "planner::c40::C40LikePlan<TextCharset>",
            "x12": "planner::x12::X12Plan", "edifact": "planner::edifact::EdifactPlan", "b256": "planner::base256::Base256Plan"}
for n, tier, cap in (("ascii_3", T, 2400), ("c40_2", Q, 1200), ("c40_3", T, 2400), ("text_2", Q, 1200), ("x12_3", Q, 900), ("x12_4", T, 1800), ("x12_5", T, 2400),
                     ("edifact_2", Q, 900), ("edifact_3", Q, 1200), ("edifact_4", T, 2400), ("edifact_5", T, 2400), ("b256_2", Q, 900)):
    m, l = n.split("_")
    reg("cpl_" + n, "plan", ["C18", "C11"], tier=tier, cap=cap, mem_gb=8 if tier == Q else 16,
        qprops=["C18", "C11"] if n in ("x12_3", "edifact_2") else ["C18"],
        bounds="%s: a run of %s arbitrary characters to the end of the data, 1..=10 codewords already written, any 1..3 ascending real capacities: plan stepped with step/cost/mode_switch_cost (no overflow, no assertion), and the real encoder never needs a larger symbol than ceil(cost) selects" % (m, l),
        encodes=[_plan_fn[m] + "::{step,cost,mode_switch_cost}", "planner::frac::Frac"] + _enc_fn[m])

# --------------------------------------------------------------------------- symbol catalogue (C12), list queries (C11, C02)
SYM = ["symbol_size::SymbolSize::num_data_codewords", "symbol_size::SymbolSize::block_setup", "symbol_size::SymbolSize::capacity",
       "symbol_size::SymbolSize::is_square/is_dmre/has_padding_modules", "symbol_size::BlockSetup::content_width/height"]
reg("cat_attr", "sym", ["C12"], cap=300, bounds="symbolic index over all 48 sizes, every attribute vs ISO/IEC 16022 Table 7 / ISO 21471", encodes=SYM)
reg("cat_ord", "sym", ["C12"], cap=600, bounds="three symbolic indices over all 48 sizes: unique dimensions, Ord total/consistent with Eq/monotone in capacity",
    encodes=["symbol_size::<SymbolSize as Ord>::cmp", "PartialOrd", "PartialEq"] + SYM[:2])
reg("cat_all_once", "sym", ["C12"], cap=300, bounds="closed term: SYMBOL_SIZES x symbolic variant index: each variant once, strictly ascending", encodes=["symbol_size::SYMBOL_SIZES"])
reg("cat_caps_table", "sym", ["C12", "C02"], cap=300, role="oracle-validation", bounds="symbolic index over all 48 sizes: capacities <= 43 are in the harness table", encodes=SYM[:1])
FILT = ["SymbolList::enforce_width_in", "SymbolList::enforce_height_in", "SymbolList::with_whitelist", "SymbolList::contains"]
for n, lo in (("w_u", "unbounded"), ("w_i1", "included 17"), ("w_i2", "included 18"), ("w_i3", "included 19"), ("w_e1", "excluded 17"), ("w_e2", "excluded 18"), ("w_e3", "excluded 19")):
    reg("cat_filter_" + n, "sym", ["C12"], cap=900, bounds="closed terms: one-symbol list [Rect8x18], enforce_width_in, lower bound %s x all 7 upper bounds (unbounded / included / excluded x {17,18,19})" % lo, encodes=FILT)
for n, lo in (("h_u", "unbounded"), ("h_i", "included 12"), ("h_e", "excluded 12")):
    reg("cat_filter_" + n, "sym", ["C12"], cap=900, bounds="closed terms: one-symbol list [Rect12x26], enforce_height_in, lower bound %s x all 7 upper bounds around 12" % lo, encodes=FILT)
reg("cat_filter_axes", "sym", ["C12"], cap=600, bounds="closed terms: width vs height axes on Rect8x18", encodes=FILT)
reg("cat_filter_sq", "sym", ["C12"], cap=600, bounds="enforce_square on a square and a rectangular one-symbol list", encodes=["SymbolList::enforce_square"])
reg("cat_filter_re", "sym", ["C12"], cap=600, bounds="enforce_rectangular on a square and a rectangular one-symbol list", encodes=["SymbolList::enforce_rectangular"])
for n, lst in (("0", "the empty list"), ("1", "[Square14]"), ("2", "[Square144, Square10]"), ("3", "[Square12, Rect8x18, Square10]")):
    reg("cat_first_" + n, "sym", ["C12", "C11", "C02"], cap=900, bounds="%s, symbolic need 0..=3200: first symbol in Ord that is large enough; upper limit None iff list empty; max_capacity" % lst,
        encodes=["SymbolList::first_symbol_big_enough_for", "SymbolList::upper_limit_for_number_of_codewords", "SymbolList::max_capacity", "SymbolList::is_empty"])
reg("stub_consts_ok", "sym", ["C08", "C05", "C12"], cap=300, role="stub-validation", bounds="closed terms: stub constants == real block_setup; symbolic index: every size has >= 100 modules", encodes=SYM[:2])

# --------------------------------------------------------------------------- Reed-Solomon encoder (C06)
reg("gf_mul", "gf", ["C06"], cap=300, bounds="all 65536 operand pairs: table multiplication == shift-xor multiplication mod 0x12D", encodes=["galois::<GF as Mul>::mul", "galois::LOG", "galois::ANTI_LOG"])
reg("gf_div", "gf", ["C06", "C05"], cap=300, bounds="all dividends x all non-zero divisors", encodes=["galois::<GF as Div>::div"])
reg("gf_log_pow", "gf", ["C06"], cap=300, bounds="all non-zero elements; all exponents 0..=254", encodes=["galois::GF::log", "galois::GF::primitive_power", "Add/Sub/Neg"])
for n, ks in (("a", "5,7,10,11,12,14,15,18"), ("b", "20,22,24,27,28"), ("c", "32,34,36,38"), ("d", "41,42,46"), ("e", "48,50,56"), ("f", "62,68")):
    reg("rs_gen_" + n, "ec", ["C06"], cap=1200, mem_gb=8, bounds="closed terms: generator polynomials of degree %s == prod_{i=1..k}(x + 2^i) in shift-xor arithmetic" % ks,
        encodes=["errorcode::GENERATOR_POLYNOMIALS", "errorcode::generator"])
reg("rs_gen_exists", "ec", ["C06", "C12"], cap=300, bounds="symbolic index over the 48 sizes: generator(k) exists, monic, count = blocks x k", encodes=["errorcode::generator", "SymbolSize::block_setup"])
for n in ("5_11", "12_18", "20", "22", "24", "27", "28", "32", "34", "36", "38", "41", "42", "46", "48", "50", "56", "62", "68"):
    reg("rs_step_" + n, "ec", ["C06"], cap=1200, mem_gb=8,
        bounds="degree(s) %s: one LFSR step from an ARBITRARY register state (k symbolic bytes) with an arbitrary data byte == (old*x + a*x^k) mod g coefficient-wise in shift-xor arithmetic (one inductive step => any data length)" % n.replace("_", "..")
        , encodes=["errorcode::ecc_block", "errorcode::generator"])
for n in ("sq52", "sq64", "sq72", "sq80", "sq88", "sq96", "sq104", "sq120", "sq132", "sq144", "sq10", "r16x48"):
    reg("rs_glue_" + n, "ec", ["C06", "C01"], cap=2400, mem_gb=8 if n in ("sq10", "r16x48") else 16, stubbing=True, tier=Q if n in ("sq52", "sq10", "r16x48") else T, role="attempt" if n in ("sq72", "sq80", "sq88", "sq96", "sq104", "sq120", "sq132", "sq144") else "lemma",
        qprops=["C06", "C01"] if n == "sq10" else ["C06"],
        bounds="%s: data = fixed pattern with the first and last codeword of every block symbolic; ecc_block replaced by a recording stub (count, first, last, rotating xor): block q receives exactly the codewords q, q+B, q+2B, ... and its result is written to positions q, q+B, ..." % n,
        encodes=["errorcode::encode_error"])
for n in ("sq52", "sq10", "r16x48"):
    reg("rs_gluefull_" + n, "ec", ["C06"], cap=2400, mem_gb=16 if n == "sq52" else 8, stubbing=True, tier=T if n == "sq52" else Q, role="attempt" if n == "sq52" else "lemma",
        bounds="%s: EVERY data codeword symbolic; ecc_block replaced by a recording stub: block q receives exactly the codewords q, q+B, ... and its result is written to positions q, q+B, ..." % n, encodes=["errorcode::encode_error"])
for n in ("sq144", "sq132", "sq120", "sq104", "sq64"):
    reg("rs_gluelight_" + n, "ec", ["C06", "C01"], cap=1200 if n == "sq64" else 5400, mem_gb=8 if n == "sq64" else 16, stubbing=True, tier=Q if n == "sq64" else T, role="lemma" if n == "sq64" else "attempt", qprops=["C06"],
        bounds="%s: ecc_block replaced by a stub recording the exact size hint and the first element of the block iterator: block q is handed exactly ceil((n-q)/B) codewords starting with codeword q, results interleaved at q, q+B, ...; first codeword of every block symbolic" % n,
        encodes=["errorcode::encode_error"])
for n in ("8_3", "7_3", "10_4", "9_3", "11_10"):
    reg("rs_gluetoy_" + n, "ec", ["C06", "C01"], cap=900, mem_gb=8, stubbing=True, tier=Q, role="lemma", qprops=["C06", "C01"] if n in ("8_3", "10_4") else ["C06"],
        bounds="scaled-down UNEQUAL blocks (the 144x144 case): SymbolSize::block_setup / num_data_codewords replaced by toy constants n_B = %s (n data codewords over B interleaved blocks, 5 error codewords each), EVERY data codeword symbolic; ecc_block replaced by the recording stub: block q receives exactly ceil((n-q)/B) codewords q, q+B, ... and its result is written to positions q, q+B, ..." % n,
        encodes=["errorcode::encode_error"])
reg("rs_il_sq10", "ec", ["C06", "C01"], cap=600, bounds="10x10: all data zero except the last codeword (symbolic): error codewords == a*x^k mod g at the interleaved positions", encodes=["errorcode::encode_error", "errorcode::ecc_block"])
reg("rs_il_r8x32", "ec", ["C06"], cap=1800, tier=T, role="attempt", bounds="8x32: same", encodes=["errorcode::encode_error"])
for n in ("sq52", "sq64", "sq144"):
    reg("rs_il_" + n, "ec", ["C06", "C01"], cap=1500, mem_gb=16, tier=T, role="attempt",
        bounds="%s (interleaved blocks): all data codewords zero except the last one of every block (symbolic)" % n, encodes=["errorcode::encode_error", "errorcode::ecc_block"])

# --------------------------------------------------------------------------- Reed-Solomon decoder (C03, C09, C05)
reg("synd_eval", "ecdec", ["C09", "C03", "C06"], profiles=["rel"], cap=900, bounds="4 symbolic codewords, 3 syndromes == Horner at 2^1..2^3 in shift-xor arithmetic", encodes=["decoding::primitive_element_evaluation"])
reg("chien_lin", "ecdec", ["C05", "C03", "C09"], profiles=["dev", "rel"], cap=600, bounds="linear polynomials: both coefficients symbolic, symbolic probe element: exactly the root set, no division by zero", encodes=["decoding::chien_search"])
reg("chien_quad", "ecdec", ["C03", "C09"], cap=1500, mem_gb=12, role="attempt", tier=T, bounds="three symbolic coefficients, leading != 0; full 255-step search", encodes=["decoding::chien_search"])
LD = ["syndrome_based::find_inv_error_locations_levinson_durbin"]
for n in ("k2_z0", "k2_z1", "k3_z0", "k3_z1", "k3_z2", "k4_z0", "k4_z1", "k4_z2", "k4_z3", "k5_z0", "k5_z0_ff", "k5_z1", "k5_z2", "k5_z3", "k5_z4"):
    reg("ld_np_" + n, "synd", ["C05"], profiles=["rel"], cap=900,
        bounds="Levinson-Durbin on a syndrome vector of length k with z literal leading zeros (%s), first non-zero syndrome a constant, the rest symbolic: no panic, locator shape; Err only if the first t syndromes vanish" % n, encodes=LD)
for n in ("k6_z0", "k6_z1", "k6_z2", "k7_z0", "k7_z1", "k7_z2", "k7_z3"):
    reg("ld_np_" + n, "synd", ["C05"], profiles=["rel"], tier=T, cap=1800, role="attempt", bounds="same, %s" % n, encodes=LD)
for n, tier, role in (("k2_z0", Q, "lemma"), ("k3_z0", Q, "lemma"), ("k4_z1", Q, "lemma"), ("k5_z1", Q, "lemma"), ("k7_z2", T, "lemma"),
                      ("k4_z0", T, "attempt"), ("k6_z0", T, "attempt"), ("k6_z1", T, "attempt")):
    reg("ld_ct_" + n, "synd", ["C09"], profiles=["rel"], tier=tier, role=role, cap=900 if tier == Q else 1800,
        bounds="Levinson-Durbin, %s: Ok(w) satisfies rows 0..t-1 of the Hankel system (the contract decode_gen relies on)" % n, encodes=LD)
reg("ld_scale", "synd", ["C03", "C09"], profiles=["rel"], cap=1500, tier=T, role="attempt", bounds="k=4, scaling factors 2, 0x80, 0xFF, 3 symbolic syndromes: same locator", encodes=LD)
reg("bp_1", "synd", ["C03", "C05"], profiles=["rel"], cap=600, bounds="Bjoerck-Pereyra, 1 locator, arbitrary value", encodes=["syndrome_based::find_error_values_bp"])
reg("bp_2", "synd", ["C03"], profiles=["rel"], cap=1500, tier=T, role="attempt", bounds="Bjoerck-Pereyra, 2 distinct non-zero locators, arbitrary values", encodes=["syndrome_based::find_error_values_bp"])
GEN = ["syndrome_based::decode_gen", "decoding::primitive_element_evaluation", "decoding::chien_search", "syndrome_based::find_error_values_bp"] + LD
TOY = "toy interleaved code (stride 2, 3 data codewords split 2+1 -> unequal blocks, k error codewords per block)"
for n, tier in (("k2_b0", T), ("k2_b1", T), ("k3_b0", Q), ("k3_b1", Q)):
    reg("cap_gen_" + n, "synd", ["C03"], profiles=["rel"], tier=tier, cap=2400, mem_gb=8,
        bounds=TOY + " %s: zero codeword + 1 error (= floor(k/2)) at a symbolic position (data or EC part) with a symbolic value, symbolic garbage in the other block: Ok, block restored, other block untouched" % n, encodes=GEN)
for n, tier in (("k3_z1_b0", Q), ("k3_z2_b1", Q), ("k2_z0_b0", T), ("k3_z0_b0", T), ("k3_z0_b1", T)):
    reg("ok_w2_" + n, "synd", ["C09", "C05"], profiles=["rel"], tier=tier, cap=3600, mem_gb=8, qprops=["C09"],
        bounds=TOY + " %s: zero codeword + 2 errors (one beyond capacity) at symbolic positions/values, garbage in the other block, z leading zero syndromes: Ok => codeword" % n, encodes=GEN)
for n in ("k2_z0_b0", "k3_z0_b1"):
    reg("ok_gen_" + n, "synd", ["C09", "C05"], profiles=["rel"], tier=T, role="attempt", cap=1800, mem_gb=8,
        bounds=TOY + " %s: EVERY byte of the received word symbolic (finder form)" % n, encodes=GEN)
for n in ("ok_contract_k3",):
    reg(n, "synd", ["C09", "C05"], profiles=["rel"], tier=T, role="attempt", cap=1800, mem_gb=8,
        bounds=TOY + ": every byte symbolic, locator search replaced by its contract", encodes=GEN[:4])
reg("dec_glue", "synd", ["C03", "C09", "C05"], profiles=["rel"], cap=1800, mem_gb=8, stubbing=True, qprops=["C03", "C05"],
    bounds="symbolic index over all 48 sizes: decode() calls decode_gen once per block with data[b..], error[b..], stride = blocks, err_len = k (decode_gen replaced by a recording stub)", encodes=["syndrome_based::decode"])
reg("gen_identity", "synd", ["C01", "C03"], profiles=["rel"], tier=T, cap=2400, bounds=TOY + " k=3: arbitrary codeword of block 0: Ok, nothing written, locator search not called", encodes=GEN[:2])

# --------------------------------------------------------------------------- placement (C07), rendering / parsing (C08)
PL = ["placement::IndexTraversal::run", "placement::IndexTraversal::utah", "placement::IndexTraversal::corner1..4", "placement::IndexTraversal::idx"]
_q_shapes = ("sq10", "sq12", "sq14", "sq16", "r8x18", "r8x32", "r12x26", "r8x48")
for n in ("sq10", "sq12", "sq14", "sq16", "sq18", "sq20", "sq22", "sq24", "sq26", "sq32", "sq36", "sq40", "sq44", "r8x18", "r8x32", "r12x26", "r12x36", "r16x36", "r16x48",
          "r8x48", "r8x64", "r8x80", "r8x96", "r8x120", "r8x144", "r12x64", "r12x88", "r16x64", "r20x36", "r20x44", "r20x64", "r22x48", "r24x48", "r24x64", "r26x40", "r26x48", "r26x64"):
    reg("pl_idx_" + n, "place", ["C07", "C01"], tier=Q if n in _q_shapes else T, cap=1800 if n in _q_shapes else 3600, mem_gb=8 if n in _q_shapes else 16,
        role="attempt" if n in ("sq36", "sq40", "sq44", "r20x64", "r24x48", "r24x64", "r26x48", "r26x64", "r26x40", "r12x88", "r8x144", "r16x64", "sq32") else "lemma",
        qprops=["C07", "C01"] if n in ("sq10", "r8x18") else ["C07"],
        bounds="closed term, shape %s: the complete traversal vs Annex F (+ DMRE row wrap): every (codeword, bit) on the standard's module, bijection, untouched = fixed corner pattern" % n, encodes=PL)
reg("pl_cell_any", "place", ["C07"], cap=2400, bounds="symbolic even mapping matrix 6..=132 x 6..=132, symbolic (i, j) inside it: utah / corner1-4 / idx vs the standard's module()", encodes=PL[1:])
for n, tier in (("sq10", T), ("sq12", T), ("r8x18", T)):
    reg("pl_rw_" + n, "place", ["C07", "C01"], cap=1500, mem_gb=16, tier=tier, role="attempt", bounds="%s: all codewords of the symbol symbolic: module == bit of the codeword at the standard's position; codewords() inverts" % n,
        encodes=["placement::MatrixMap::new_with_codewords", "copy_from_codewords", "traverse_mut", "bits_mut", "write_padding", "codewords", "traverse"] + PL)
for n, tier in (("sq10", Q), ("r8x18", Q), ("r8x32", T), ("r12x36", T), ("r8x64", T), ("sq32", T)):
    reg("fd_render_" + n, "place", ["C08", "C01"], cap=2400, mem_gb=8 if tier == Q else 16, tier=tier, role="attempt" if n in ("sq32", "r12x36", "r8x64") else "lemma",
        qprops=["C08", "C01"] if n == "sq10" else ["C08"],
        bounds="%s: every mapping-matrix entry symbolic: each module of bitmap() is the standard's finder/clock/alignment value or the entry at the region-offset position" % n, encodes=["placement::MatrixMap::bitmap", "placement::MatrixMap::new"])
TFB = ["placement::MatrixMap::try_from_bits", "placement::MatrixMap::bitmap"]
for n in ("sq10", "sq12", "r8x18", "r8x32"):
    reg("fd_strict_" + n, "place", ["C08", "C05"], cap=1500, mem_gb=16, tier=T, role="attempt", stubbing=True, unwindset=[("btree", 4)],
        bounds="%s: every pixel symbolic; accepted => re-rendering reproduces it; SymbolList::all / block_setup / has_padding_modules stubbed to this one size" % n, encodes=TFB)
for n in ("r8x32", "sq12", "sq32"):
    reg("fd_flip_" + n, "place", ["C08", "C05"], cap=2400, mem_gb=16, tier=Q if n != "sq32" else T, role="lemma" if n != "sq32" else "attempt", stubbing=True, unwindset=[("btree", 4)],
        bounds="%s: the rendering of the empty symbol with ONE module flipped at a symbolic position (every single-module deviation): data module -> accepted with that entry changed; finder / clock / alignment / fixed-corner module -> rejected; size lookup stubbed to this size" % n, encodes=TFB)
for n in ("r8x32", "sq12"):
    reg("fd_parse_" + n, "place", ["C08", "C01"], cap=3600, mem_gb=16, tier=Q if n == "r8x32" else T, role="lemma" if n == "r8x32" else "attempt", stubbing=True, unwindset=[("btree", 4)], qprops=["C08"],
        bounds="%s: every mapping-matrix entry symbolic: try_from_bits(bitmap(m)) == (m, size); same stubs" % n, encodes=TFB)
reg("fd_ragged_r8x18", "place", ["C08", "C05"], cap=600, stubbing=True, unwindset=[("btree", 4)],
    bounds="8x18 symbol + 1 / + 17 stray pixels -> DataSize, width 0 -> ZeroWidth; pixel values symbolic", encodes=TFB[:1])
reg("fd_reject_small", "place", ["C08", "C05"], cap=900, stubbing=True, unwindset=[("btree", 4)],
    bounds="arrays of 36, 25 and 0 symbolic pixels with widths 0, 5, 6, 12, 3: ZeroWidth / DataSize / SymbolSize exactly; size lookup stubbed to the single size 8x18 (every real size has >= 100 modules: stub_consts_ok)", encodes=TFB[:1])

H = [h for h in ALL]

PROPS = {}

GLUE_PIPE = "planner::optimize, GenericDataEncoder::codewords (dispatch loop, latch push, planned_switches bookkeeping) and decode_parts / DataMatrix::decode plumbing are NOT symbolically executed (CBMC does not finish them even for one symbolic byte); they are read, not solved"

PROPS = {
    "C01": dict(
        text="compositional bounded model checking: each stage of encode -> symbol -> decode is an inverse pair on the real functions (mode encoders vs independent decoder, macro/FNC1 prelude and cursor, padding, RS identity on codewords, placement traversal, rendering)",
        outside=[GLUE_PIPE, "mode runs longer than the stated character counts; symbol capacities above 43 in the encoder contexts",
                 "try_from_bits (parse direction) only as thorough-tier attempts"],
        assumptions=["HEnc (array-backed EncodingContext) re-states the contracts of GenericDataEncoder's context methods: symbol_size_left = first capacity >= need, maybe_switch_mode true exactly at the planned character count, set_ascii_until_end",
                     "C04 lemmas (crate decoder agrees with the independent decoder) close the loop to the crate's own decoder"]),
    "C02": dict(
        text="bounded model checking of the six real mode encoders (generic over the context trait) against an independent ISO/IEC 16022 decoder, plus padding, ECI designators and symbol selection lemmas",
        outside=[GLUE_PIPE, "streams longer than the stated bounds", "the plan actually chosen by the optimiser (the context covers EVERY plan with one switch to ASCII)"],
        assumptions=["HEnc as in C01", "preconditions on characters handed to X12 / EDIFACT are those Plan::step enforces (native X12 triples, EDIFACT-encodable)"]),
    "C03": dict(
        text="bounded model checking of the real decode_gen (syndromes, Levinson-Durbin, Chien, Bjoerck-Pereyra, position mapping) on scaled-down interleaved codes with unequal blocks, every error position and value within the capacity symbolic",
        outside=["the 48 real sizes themselves (k >= 5; the full Chien search and t >= 2 are beyond CBMC here): the scaled codes k in {2,3}, t = 1 share the code of decode_gen, not the parameters",
                 "decode(): the three lines that slice data[block..], error[block..] and pass stride are read, not solved",
                 "scaling invariance of Levinson-Durbin (normalising closure) is checked for three factors only (attempt), otherwise a mathematical argument"],
        assumptions=["ld_norm: the real Levinson-Durbin is called on syndromes divided by the first non-zero one with literal leading entries, one query per leading-zero count"]),
    "C04": dict(
        text="bounded model checking of the five real mode decoders + ASCII decoder against an independent ISO/IEC 16022 decoder on arbitrary codeword runs (differential, one direction: reference accepts => crate accepts with the same result)",
        outside=["decode_parts dispatch loop and macro/FNC1 prelude (glue: not a separate function; not symbolically executable)", "runs longer than the stated codeword counts (C40/Text: covered inductively over pairs by the *_st harnesses)"],
        assumptions=["conformance is defined by the reference decoder harness/ref/iso.rs, itself checked against the reference encoder pieces (oracle_* harnesses)"]),
    "C05": dict(
        text="bounded model checking for panics / overflow / division by zero / out-of-bounds / non-termination of every decoding stage that CBMC can execute, in the dev profile (overflow checks, debug assertions) and a release-like profile (wrapping arithmetic)",
        outside=["DataMatrix::decode / decode_parts / errorcode::decode as wholes", "Levinson-Durbin in the dev profile for z = 0 (its debug-only self checks are algebraic identities the SAT solver does not finish) and beyond k = 7",
                 "the full 255-step Chien search (locators of degree >= 2)", "try_from_bits beyond the rejection paths (strictness harnesses are attempts)"],
        assumptions=["unwinding assertions on: every loop of the encoded functions terminates within the stated bound"]),
    "C06": dict(
        text="bounded model checking: GF(256) tables == shift-xor arithmetic (all pairs); all 25 generator polynomials == prod (x + 2^i) (closed terms); one LFSR step from an arbitrary register state for all 25 degrees (inductive step); interleaving on 10x10",
        outside=["interleaving / unequal blocks of the ten multi-block sizes: thorough-tier attempts only (encode_error on >= 204 data codewords exhausts memory in symbolic execution)"],
        assumptions=["additivity of the LFSR step lifts one-step + zero-prefix results to arbitrary data"]),
    "C07": dict(
        text="bounded model checking: IndexTraversal::run vs the standards' placement program as closed terms per shape; loop-free cell functions for symbolic geometry",
        outside=["the eleven largest squares (48x48 .. 144x144): CBMC needs > 20 GB to fold their traversal; covered only by pl_cell_any (symbolic geometry of utah/corner/idx) plus the size-independent sweep skeleton exercised on the smaller shapes",
                 "write/read with symbolic codeword contents (pl_rw_*): attempts"],
        assumptions=[]),
    "C08": dict(
        text="bounded model checking of MatrixMap::bitmap on symbolic contents against the standard's finder/clock/alignment formula, and of try_from_bits' rejection paths; strict parsing as thorough-tier attempts with the size lookup stubbed to one size",
        outside=["parse direction for all sizes (SymbolList::all() cannot be built symbolically)", "rendering of sizes beyond those listed"],
        assumptions=["stubs: SymbolList::all -> one size, SymbolSize::block_setup / has_padding_modules -> that size's constants (validated by stub_consts_ok; sound because dimensions identify a size: cat_ord)"]),
    "C09": dict(
        text="bounded model checking: Ok => codeword on scaled-down codes with the real decode_gen for error patterns up to one beyond the correction capacity; Levinson-Durbin's contract (Hankel rows 0..t-1) as separate lemmas",
        outside=["real sizes (k >= 5)", "patterns of weight > t+1 on the proving side (finder attempts look there)", "Levinson-Durbin contract for k >= 4 with z = 0 (attempts)"],
        assumptions=["codeword test uses the crate's syndrome evaluation, tied to Horner evaluation at 2^1..2^k by synd_eval", "ld_norm as in C03"]),
    "C11": dict(
        text="bounded model checking of the assertion / unreachable / panic / overflow sites reachable through the mode encoders, the per-mode cost models, the macro prelude, the ECI writer and the symbol-list queries (None iff empty)",
        outside=[GLUE_PIPE, "the 'ASCII disabled' start-up of optimize and the encoder/planner character-count agreement asserted in maybe_switch_mode: they live in optimize and are not reachable by these queries"],
        assumptions=["HEnc / HPlan as in C01 / C18"]),
    "C12": dict(
        text="bounded model checking over a symbolic index of all 48 sizes against tables transcribed from the standards; Ord laws; filters with symbolic range bounds; list queries with a symbolic need",
        outside=["default() / with_extended_rectangles() as B-tree values (48 inserts are beyond CBMC): instead SYMBOL_SIZES lists each variant once and is_dmre is exact; the two constructors are from_iter of that array with/without the filter (read)",
                 "filters on lists of more than one symbol and compositions of filters"],
        assumptions=["BTreeSet::from_iter / retain are trusted beyond the one-symbol lists executed"]),
    "C14": dict(
        text="bounded model checking of the Latin-1 helpers on every scalar value / byte, and of encode_str's dispatch on every one-character string with the downstream encoder stubbed by a recorder",
        outside=[GLUE_PIPE, "strings of more than one character in the dispatch (attempt for two)", "eci::convert span re-assembly (not finished by CBMC)"],
        assumptions=["stub: DataMatrixBuilder::encode_eci records its arguments"]),
    "C15": dict(
        text="bounded model checking: write_eci/read_eci over all 1,000,000 numbers and all 1-3 codeword designators; the three 8-bit tables over all 256 bytes against rule-based oracles; ECI 26/27 on all 0..3-byte sequences",
        outside=["UTF-8 sequences of 4 bytes (attempt)", "extended_eci feature (not built)"],
        assumptions=[]),
    "C16": dict(
        text="bounded model checking of with_size + use_macro_if_possible + eat/backup/rest on the real GenericDataEncoder for every input of the listed lengths",
        outside=["inputs longer than 12 bytes (the guard looks at the first 7 and last 2 bytes only)", "decoder side of the macro envelope (decode_parts prelude: glue)", GLUE_PIPE],
        assumptions=[]),
    "C18": dict(
        text="bounded model checking of the coupling between each mode's end-of-data cost model and its real encoder: the encoder never needs a larger symbol than ceil(cost) selects",
        outside=[GLUE_PIPE, "plan list shape (enabled modes only, monotone positions, terminator) and latch/plan correspondence of whole streams", "runs with a mid-run switch (mode_switch_cost / write_unlatch are exercised for panics only)"],
        assumptions=["HPlan (array-backed ContextInformation) mirrors planner::generic::Context: symbol_size_left over the same capacity table, write() accumulates"]),
}
