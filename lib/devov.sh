#!/bin/bash
# dev helper: (re)create overlay at /var/tmp/dmv.dev/ov_<profile> and run harnesses directly; concise summary
prof=${PROF:-dev}
tag=${TAG:-x}
python3 - <<EOF
import sys; sys.path.insert(0,'/verif/lib')
import overlay, shutil, driver
shutil.rmtree('/var/tmp/dmv.dev/ov_${prof}_$tag', ignore_errors=True)
overlay.make_overlay('/var/tmp/dmv.dev/ov_${prof}_$tag','$prof')
driver.write_kf('/var/tmp/dmv.dev/ov_${prof}_$tag', {})
EOF
cd /var/tmp/dmv.dev/ov_${prof}_$tag
args=""
for h in "$@"; do args="$args --harness $h"; done
timeout ${TO:-300} cargo kani --target-dir /var/tmp/dmv.dev/target_${prof}_$tag $args ${EXTRA} > /var/tmp/dmv.dev/last_${prof}_$tag.log 2>&1
echo "rc=$?"
python3 - <<EOF
import re
t=open('/var/tmp/dmv.dev/last_${prof}_$tag.log',errors='replace').read()
errs=[l for l in t.splitlines() if l.startswith('error')]
print("\n".join(errs[:15]))
if errs:
    i=t.find('error'); print(t[i:i+3000])
for blk in t.split('Checking harness ')[1:]:
    name=blk.split('...')[0]
    sym=re.findall(r'Runtime Symex: ([\d.]+)s',blk)
    vt=re.findall(r'Verification Time: ([\d.]+)s',blk)
    res=re.findall(r'VERIFICATION:- (\w+)',blk)
    summ=re.findall(r'\*\* (\d+ of \d+ failed[^\n]*)',blk)
    cov=re.findall(r'\*\* (\d+ of \d+ cover[^\n]*)',blk)
    fc=re.findall(r'Failed Checks: ([^\n]*)\n File: "[^"]*/([^"/]*)", line (\d+)',blk)
    print(name, res, 'symex',sym,'total',vt, summ, cov)
    for f in fc[:8]: print('    FAILED:',f)
EOF
