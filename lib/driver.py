"""Driver: overlay build, cargo-kani runs, verdict parsing, native replay, evidence."""
import os, sys, json, time, shutil, subprocess, resource, re, signal, glob

LIB = os.path.dirname(os.path.abspath(__file__))
HERE = os.path.dirname(LIB)
sys.path.insert(0, LIB)
sys.path.insert(0, HERE)
import overlay  # noqa: E402

SCRATCH_BASE = os.environ.get("VERIF_SCRATCH", "/var/tmp")
KANI_ENV = dict(os.environ, CARGO_NET_OFFLINE="true", CARGO_TERM_COLOR="never")
KANI_ENV.pop("RUSTFLAGS", None)


def modpath(key):
    src, _h, mod = overlay.HOOKS[key]
    parts = src[:-3].split("/")
    if parts[-1] in ("mod", "lib"):
        parts = parts[:-1]
    return "::".join(parts + [mod])


def fq(h):
    return modpath(h["mod"]) + "::" + h["name"]


def _limit(gb):
    def f():
        os.setsid()
        b = int(gb * (1 << 30))
        resource.setrlimit(resource.RLIMIT_AS, (b, b))
    return f


def run(cmd, cwd, log, timeout, mem_gb=None):
    """Run a command, whole process group killed on timeout. Returns (rc, timed_out)."""
    with open(log, "ab") as lf:
        lf.write(("\n$ " + " ".join(cmd) + "\n").encode())
        lf.flush()
        p = subprocess.Popen(cmd, cwd=cwd, stdout=lf, stderr=subprocess.STDOUT, env=KANI_ENV,
                             preexec_fn=_limit(mem_gb) if mem_gb else os.setsid)
        try:
            rc = p.wait(timeout=timeout)
            return rc, False
        except subprocess.TimeoutExpired:
            try:
                os.killpg(p.pid, signal.SIGKILL)
            except ProcessLookupError:
                pass
            p.wait()
            return -9, True


class Group:
    """One cargo-kani invocation: a set of harnesses sharing overlay/profile/limits."""

    def __init__(self, scratch, profile, harnesses, jobs, mem_gb, tag, cbmc_args=None, kf=None):
        self.scratch, self.profile, self.hs = scratch, profile, harnesses
        self.jobs, self.mem_gb, self.tag, self.cbmc_args = jobs, mem_gb, tag, cbmc_args
        self.ov = os.path.join(scratch, "ov_" + profile)
        self.kf = kf or {}
        self.results = {}

    def ensure_overlay(self):
        if not os.path.exists(self.ov):
            overlay.make_overlay(self.ov, self.profile)
            write_kf(self.ov, self.kf)

    def execute(self):
        self.ensure_overlay()
        tdir = os.path.join(self.scratch, "target_%s_%s" % (self.profile, self.tag))
        outjson = os.path.join(self.scratch, "res_%s_%s.json" % (self.profile, self.tag))
        log = os.path.join(self.scratch, "log_%s_%s.txt" % (self.profile, self.tag))
        cap = max(h.get("cap", 300) for h in self.hs)
        cmd = ["cargo", "kani", "--target-dir", tdir, "--exact"]
        for h in self.hs:
            cmd += ["--harness", fq(h)]
        if self.jobs > 1:
            cmd += ["-j", str(self.jobs), "--output-format", "terse"]
        cmd += ["-Z", "unstable-options", "--export-json", outjson, "--harness-timeout", "%ds" % cap]
        cmd += ["-Z", "stubbing"]
        if self.cbmc_args:
            cmd += ["--cbmc-args"] + self.cbmc_args
        n = len(self.hs)
        waves = (n + self.jobs - 1) // self.jobs
        t0 = time.time()
        rc, to = run(cmd, self.ov, log, timeout=240 + cap * waves + 60, mem_gb=self.mem_gb)
        self.wall = time.time() - t0
        self.log = log
        self.parse(outjson, log, rc, to)
        shutil.rmtree(tdir, ignore_errors=True)

    def parse(self, outjson, log, rc, timed_out):
        logtxt = open(log, errors="replace").read()
        data = None
        if os.path.exists(outjson):
            try:
                data = json.load(open(outjson))
            except Exception:
                data = None
        compile_error = ("error: could not compile" in logtxt) or ("error[E" in logtxt)
        byid = {}
        if data:
            stats = {c["harness_id"]: (c.get("cbmc_stats") or {}) for c in data.get("cbmc", [])}
            props = {c["harness_id"]: (c.get("property_details") or {}) for c in data.get("property_details", [])}
            for r in data.get("verification_results", {}).get("results", []):
                byid[r["harness_id"]] = (r, stats.get(r["harness_id"], {}), props.get(r["harness_id"], {}))
        for h in self.hs:
            hid = fq(h)
            res = dict(name=h["name"], fq=hid, profile=self.profile, status="not_decided", reason="",
                       failed_checks=[], covers_sat=0, covers_unsat=0, props_total=0, symex_s=None,
                       solver_s=None, vccs=None, wall_s=None, unwind_failed=False)
            if compile_error:
                res["reason"] = "overlay does not compile (harness does not fit this tree?)"
                res["status"] = "compile_error"
            elif hid in byid:
                r, st, pr = byid[hid]
                res["wall_s"] = r.get("duration_ms", 0) / 1000.0
                res["symex_s"] = st.get("runtime_symex_s")
                res["solver_s"] = st.get("runtime_decision_procedure_s")
                res["vccs"] = st.get("vccs_generated")
                res["props_total"] = pr.get("total_properties") or 0
                res["covers_sat"] = pr.get("satisfied") or 0
                res["covers_unsat"] = pr.get("unsatisfiable") or 0
                checks = r.get("checks", [])
                failed = [c for c in checks if c.get("status") in ("Failure", "FAILURE")]
                undet = [c for c in checks if c.get("status") in ("Undetermined", "UNDETERMINED")]
                res["failed_checks"] = [dict(desc=c.get("description"), fn=c.get("function"),
                                             loc="%s:%s" % (c.get("location", {}).get("file"), c.get("location", {}).get("line")),
                                             cat=c.get("category")) for c in failed]
                unw = [c for c in failed if "unwinding assertion" in (c.get("description") or "")]
                res["unwind_failed"] = bool(unw)
                st_ = r.get("status")
                if st_ in ("Success", "SUCCESS") and not failed:
                    res["status"] = "success"
                elif failed:
                    real = [c for c in failed if c not in unw]
                    if real and not unw:
                        res["status"] = "failed"
                    elif real and unw:
                        # a real failure next to an unwinding failure is still a trace of the program
                        res["status"] = "failed"
                    else:
                        res["status"] = "not_decided"
                        res["reason"] = "unwinding assertion failed (bound too small)"
                else:
                    res["status"] = "not_decided"
                    res["reason"] = "kani status %s, %d undetermined%s" % (st_, len(undet), ", CBMC timed out" if (res["symex_s"] is None and res["wall_s"] and res["wall_s"] >= h.get("cap", 300) - 1) else "")
                    # timeouts / OOM / solver errors land here
                    m = re.search(r"(?s)%s.{0,400}?(timed out|TIMEOUT|out of memory|OOM|Killed)" % re.escape(hid), logtxt)
                    if m:
                        res["reason"] += " (" + m.group(1) + ")"
            else:
                res["reason"] = "no verdict in kani output (rc=%s%s)" % (rc, ", group timeout" if timed_out else "")
            self.results[h["name"]] = res


def run_one(scratch, h, profile, kf, ov_lock):
    """One cargo-kani process for one harness x profile (own target dir, own memory cap):
    a crash or OOM of one query cannot take the others down."""
    g = Group(scratch, profile, [h], 1, h.get("mem_gb", 8), h["name"], cbmc_args=h.get("cbmc_args"), kf=kf)
    with ov_lock:
        g.ensure_overlay()
    g.execute()
    return g.results[h["name"]]


def write_kf(ov, kf):
    """Known-finding exclusion switches, compiled into the harnesses as consts."""
    p = os.path.join(ov, "vh", "ref", "kf.rs")
    lines = ["//! generated from known_findings.json by the driver\n"]
    for k, v in sorted(kf.items()):
        lines.append("pub const %s: bool = %s;\n" % (k, "true" if v else "false"))
    open(p, "w").write("".join(lines))


def playback(scratch, h, profile, kf, log):
    """Re-run a failed harness natively with the solver's values (Kani concrete playback).
    Returns dict(reproduced=bool, test=<src>, output=<tail>)."""
    ov = os.path.join(scratch, "pb_%s_%s" % (profile, h["name"]))
    shutil.rmtree(ov, ignore_errors=True)
    overlay.make_overlay(ov, profile, playback=True)
    write_kf(ov, kf)
    tdir = os.path.join(scratch, "target_pb")
    cmd = ["cargo", "kani", "--target-dir", tdir, "--exact", "--harness", fq(h), "-Z", "concrete-playback",
           "--concrete-playback=print", "-Z", "unstable-options", "--harness-timeout", "%ds" % (h.get("cap", 300) * 2)]
    cmd += ["-Z", "stubbing"]
    if h.get("cbmc_args"):
        cmd += ["--cbmc-args"] + h["cbmc_args"]
    glog = os.path.join(scratch, "pbgen_%s_%s.log" % (profile, h["name"]))
    run(cmd, ov, glog, timeout=h.get("cap", 300) * 2 + 300, mem_gb=max(24, 2 * h.get("mem_gb", 8)))
    gout = open(glog, errors="replace").read()
    # Kani prints one unit test per failed check AND per satisfied cover, each in a
    # ```rust block; all of them are appended to the overlay copy of the harness file
    # (module level, outside any macro) and run: the violation is reproduced when at
    # least one of them fails natively.
    blocks = re.findall(r"(?s)```[a-z]*[ \t]*\n(.*?)```", gout)
    blocks = [b for b in blocks if "kani_concrete_playback_" in b]
    seen, tests = set(), []
    for b in blocks:
        mm = re.search(r"fn (kani_concrete_playback_\w+)\(\)", b)
        if mm and mm.group(1) not in seen:
            seen.add(mm.group(1))
            # keep the test itself only: the doc comment Kani prints in front of it repeats the
            # (possibly multi-line) assertion text and is not always valid Rust
            k = b.find("#[test]")
            tests.append(b[k:] if k >= 0 else b)
    if not tests:
        return dict(reproduced=False, test=None, output="no playback test generated")
    test_src = "\n".join(tests)
    test_name = "kani_concrete_playback_" + h["name"] + "_"
    hfile = os.path.join(ov, "vh", overlay.HOOKS[h["mod"]][1])
    with open(hfile, "a") as f:
        f.write("\n" + test_src + "\n")
    plog = os.path.join(scratch, "pb_%s_%s.log" % (profile, h["name"]))
    # playback has no --target-dir; it builds into ov/target (removed with the scratch dir)
    rc, to = run(["cargo", "kani", "playback", "-Z", "concrete-playback", "--", test_name, "--test-threads", "1"],
                 ov, plog, timeout=600)
    out = open(plog, errors="replace").read()
    ran = re.search(r"running \d+ tests?", out) is not None
    failed = re.search(r"test result: FAILED", out) is not None
    passed = re.search(r"test result: ok\. \d+ passed", out) is not None
    panic = re.findall(r"panicked at ([^\n]*\n[^\n]*)", out)
    shutil.rmtree(ov, ignore_errors=True)
    return dict(reproduced=bool(ran and failed), native_passed=bool(passed), test=test_src,
                panic=[p.strip() for p in panic][:3], output="\n".join(l for l in out.splitlines()
                                                                         if not re.match(r"^\s+(\d+:|at )", l))[-1500:])
