"""Overlay build of /repo for Kani: a scratch copy of the working tree plus
`#[cfg(kani)] #[path=..] mod verif_*;` lines appended to the *copies* of the
module files whose private items the harnesses need.  /repo is never edited."""
import os, shutil, subprocess, re

HERE = os.path.dirname(os.path.dirname(os.path.abspath(__file__)))
REPO = os.environ.get("VERIF_REPO", "/repo")

# key -> (file in src/, harness file in harness/, module name)
HOOKS = {
    "ref":    ("lib.rs",                                  "ref/mod.rs",  "verif_ref"),
    "lib":    ("lib.rs",                                  "h_lib.rs",    "verif_lib"),
    "data":   ("data.rs",                                 "h_data.rs",   "verif_data"),
    "enc":    ("encodation/mod.rs",                       "h_enc.rs",    "verif_enc"),
    "b256":   ("encodation/base256.rs",                   "h_b256.rs",   "verif_b256"),
    "plan":   ("encodation/planner/mod.rs",               "h_plan.rs",   "verif_plan"),
    "dec":    ("decodation/mod.rs",                       "h_dec.rs",    "verif_dec"),
    "eci":    ("decodation/eci.rs",                       "h_eci.rs",    "verif_eci"),
    "ec":     ("errorcode/mod.rs",                        "h_ec.rs",     "verif_ec"),
    "gf":     ("errorcode/galois.rs",                     "h_gf.rs",     "verif_gf"),
    "ecdec":  ("errorcode/decoding/mod.rs",               "h_ecdec.rs",  "verif_ecdec"),
    "synd":   ("errorcode/decoding/syndrome_based.rs",    "h_synd.rs",   "verif_synd"),
    "place":  ("placement.rs",                            "h_place.rs",  "verif_place"),
    "sym":    ("symbol_size.rs",                          "h_sym.rs",    "verif_sym"),
}

PROFILES = {
    # what Kani models by default
    "dev": "[profile.dev]\ndebug-assertions = true\noverflow-checks = true\n",
    # arithmetic wraps as in a release build, cfg!(debug_assertions) blocks are off
    "rel": "[profile.dev]\ndebug-assertions = false\noverflow-checks = false\n",
}


def tree_digest(repo=REPO):
    """sha256 over the source files the overlay is made of (recorded in the evidence)."""
    import hashlib
    h = hashlib.sha256()
    for root, _, files in sorted(os.walk(os.path.join(repo, "src"))):
        for f in sorted(files):
            p = os.path.join(root, f)
            h.update(p.encode())
            h.update(open(p, "rb").read())
    return h.hexdigest()[:16]


def make_overlay(dst, profile, playback=False, extra_cfg=(), harness_dir=None):
    """Create the overlay crate in `dst` from REPO's current working tree."""
    os.makedirs(dst)
    shutil.copytree(os.path.join(REPO, "src"), os.path.join(dst, "src"))
    for f in ("Cargo.toml", "Cargo.lock"):
        if os.path.exists(os.path.join(REPO, f)):
            shutil.copy(os.path.join(REPO, f), os.path.join(dst, f))
    # harness sources are copied into the overlay so that playback (`inplace`)
    # never writes into /verif
    shutil.copytree(harness_dir or os.environ.get("VERIF_HARNESS_DIR") or os.path.join(HERE, "harness"), os.path.join(dst, "vh"))
    vh = os.path.join(dst, "vh")
    appended = {}
    for key, (src, hfile, mod) in HOOKS.items():
        hp = os.path.join(vh, hfile)
        if not os.path.exists(hp):
            continue
        vis = "pub(crate) "
        line = '\n#[cfg(kani)]\n#[path = "%s"]\n%smod %s;\n' % (hp, vis, mod)
        appended.setdefault(src, []).append(line)
    for src, lines in appended.items():
        p = os.path.join(dst, "src", src)
        with open(p, "a") as f:
            f.write("".join(lines))
    cargo = open(os.path.join(dst, "Cargo.toml")).read()
    if playback:
        # native playback compiles the crate in test mode; the crate's own unit
        # tests need heavy dev-dependencies and are irrelevant here
        cargo = re.sub(r"\[dev-dependencies\].*?(?=\n\[|\Z)", "", cargo, flags=re.S)
        for root, _, files in os.walk(os.path.join(dst, "src")):
            for f in files:
                if not f.endswith(".rs"):
                    continue
                p = os.path.join(root, f)
                s = open(p).read()
                s2 = s.replace("#[cfg(test)]", "#[cfg(any())]").replace("#[test]", "#[cfg(any())]").replace("cfg_attr(test,", "cfg_attr(any(),")
                if s2 != s:
                    open(p, "w").write(s2)
    if "[workspace]" not in cargo:
        cargo += "\n[workspace]\n"
    cargo += "\n" + PROFILES[profile]
    cargo += '\n[lints.rust]\nunexpected_cfgs = { level = "allow" }\n'
    open(os.path.join(dst, "Cargo.toml"), "w").write(cargo)
    os.makedirs(os.path.join(dst, ".cargo"))
    cfgs = "".join(', "--cfg", "%s"' % c for c in extra_cfg)
    with open(os.path.join(dst, ".cargo", "config.toml"), "w") as f:
        f.write("[net]\noffline = true\n")
        if extra_cfg:
            f.write('[build]\nrustflags = [%s]\n' % cfgs.lstrip(", "))
    return dst
