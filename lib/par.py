#!/usr/bin/env python3
"""dev helper: par.py [-p prof] [-t secs] [-x extra-args] harness...  : each harness in its own cargo-kani process, in parallel"""
import sys, os, subprocess, re, shutil, time, argparse
sys.path.insert(0, '/verif/lib')
import overlay, driver
sys.path.insert(0,'/verif')
import harnesses
REG={h['name']:h for h in harnesses.ALL}
ap = argparse.ArgumentParser()
ap.add_argument('-p', default='dev'); ap.add_argument('-t', type=int, default=300); ap.add_argument('-x', default='')
ap.add_argument('-m', type=int, default=12)
ap.add_argument('hs', nargs='+')
a = ap.parse_args()
base = '/var/tmp/dmv.par'
os.makedirs(base, exist_ok=True)
ov = '%s/ov_%s_%d' % (base, a.p, os.getpid())
overlay.make_overlay(ov, a.p); driver.write_kf(ov, {})
procs = []
for h in a.hs:
    log = '%s/%s.%s.log' % (base, h, a.p)
    td = '%s/t_%s_%s' % (base, h, a.p)
    hq = ('--exact --harness ' + driver.fq(REG[h])) if h in REG else ('--harness ' + h)
    cmd = 'ulimit -v %d; exec cargo kani -Z stubbing --target-dir %s %s %s' % (a.m * 1024 * 1024, td, hq, a.x)
    procs.append((h, log, td, time.time(), subprocess.Popen(['bash', '-c', cmd], cwd=ov, stdout=open(log, 'w'), stderr=subprocess.STDOUT, env=driver.KANI_ENV, start_new_session=True)))
import signal
for h, log, td, t0, p in procs:
    try:
        rc = p.wait(timeout=max(1, a.t - (time.time() - t0)))
    except subprocess.TimeoutExpired:
        try:
            os.killpg(p.pid, signal.SIGKILL)
        except ProcessLookupError:
            pass
        p.wait()
        rc = 'TO'

    t = open(log, errors='replace').read()
    sym = re.findall(r'Runtime Symex: ([\d.]+)s', t); vt = re.findall(r'Verification Time: ([\d.]+)s', t)
    res = re.findall(r'VERIFICATION:- (\w+)', t); summ = re.findall(r'\*\* (\d+ of \d+ failed[^\n]*)', t)
    cov = re.findall(r'\*\* (\d+ of \d+ cover[^\n]*)', t)
    fc = re.findall(r'Failed Checks: ([^\n]*)\n File: "[^"]*/([^"/]*)", line (\d+)', t)
    errs = [l for l in t.splitlines() if l.startswith('error')][:5]
    print('%-40s rc=%-4s %s symex=%s total=%s %s %s' % (h, rc, res, sym, vt, summ, cov))
    for f in fc[:6]: print('      FAILED:', f)
    for e in errs: print('      ', e[:300])
    if errs:
        i = t.find('error'); print(t[i:i+700])
    shutil.rmtree(td, ignore_errors=True)
shutil.rmtree(ov, ignore_errors=True)
