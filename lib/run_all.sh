#!/bin/bash
# run_all.sh <tier> [props...] : run the registered checks one after another, log time and exit code
tier=${1:-quick}; shift
props=${@:-C01 C02 C03 C04 C05 C06 C07 C08 C09 C11 C12 C14 C15 C16 C18}
mkdir -p /var/tmp/sweep
echo $$ > /var/tmp/sweep/pid
for p in $props; do
  t0=$(date +%s)
  /verif/check $p --tier $tier > /var/tmp/sweep/$p.$tier.txt 2>&1; rc=$?
  t1=$(date +%s)
  echo "$p tier=$tier rc=$rc secs=$((t1-t0))" | tee -a /var/tmp/sweep/summary.$tier.txt
done
