#!/bin/bash
# test_seeded.sh <tier> <id>... : run the property's check against a scratch copy of /repo with the seeded patch applied
tier=$1; shift
mkdir -p /var/tmp/mutres
for id in "$@"; do
  prop=${id%%-*}
  d=/var/tmp/mutrepo/$id
  rm -rf $d; mkdir -p $d
  cp -r /repo/src /repo/Cargo.toml /repo/Cargo.lock $d/
  if ! (cd $d && git apply /verif/seeded/$id/patch.diff 2>/var/tmp/mutres/$id.apply.txt); then echo "$id APPLY-FAILED"; continue; fi
  t0=$(date +%s)
  VERIF_REPO=$d VERIF_REPLAY_DIR=/var/tmp/mutres/$id.replays VERIF_SCRATCH=/var/tmp /verif/check $prop --tier $tier --no-evidence > /var/tmp/mutres/$id.$tier.txt 2>&1
  rc=$?
  t1=$(date +%s)
  echo "$id tier=$tier rc=$rc secs=$((t1-t0)) $(grep -c VIOLATION /var/tmp/mutres/$id.$tier.txt) violation-lines; failed: $(grep -E ' failed ' /var/tmp/mutres/$id.$tier.txt | awk '{print $1}' | tr '\n' ' ')" | tee -a /var/tmp/mutres/summary.txt
  rm -rf $d
done
