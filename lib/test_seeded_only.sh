#!/bin/bash
# test_seeded_only.sh <id> <tier> <harness,list> [cap] : one seeded change, selected queries only
id=$1; tier=$2; only=$3; cap=${4:-0}
prop=${id%%-*}
mkdir -p /var/tmp/mutres
d=/var/tmp/mutrepo/$id.only
rm -rf $d; mkdir -p $d
cp -r /repo/src /repo/Cargo.toml /repo/Cargo.lock $d/
if ! (cd $d && git apply /verif/seeded/$id/patch.diff 2>/var/tmp/mutres/$id.apply.txt); then echo "$id APPLY-FAILED"; exit 1; fi
t0=$(date +%s)
extra=""; [ "$cap" != "0" ] && extra="--cap $cap"
VERIF_REPO=$d VERIF_REPLAY_DIR=/var/tmp/mutres/$id.replays /verif/check $prop --tier $tier --only $only $extra --no-evidence > /var/tmp/mutres/$id.only.txt 2>&1
rc=$?
t1=$(date +%s)
echo "$id ONLY=$only tier=$tier rc=$rc secs=$((t1-t0)) $(grep -c VIOLATION /var/tmp/mutres/$id.only.txt) violation-lines" | tee -a /var/tmp/mutres/summary_only.txt
rm -rf $d
